"""C12  One unservable entry never takes down its directory.

R12a  per-entry containment: in every loop over directory entries of the DirHandler
      family, each call that may raise FileNotFound (reaches the handler multiplexer)
      or OSError (reaches a raising VFS operation) is enclosed - inside the loop body -
      by a try catching that class whose handler lets the loop go on
R12b  a failed stat is absorbed (pre-stat in getHandler, re-stat in Virtual.__init__)
      and no handler test dereferences a missing stat result
"""

from __future__ import annotations

import ast

from ..effects import Effects
from ..facts import collect_site_paths, expand
from ..loader import dotted, norm
from ..paths import FALSY, Const, Walker, truth
from ..structure import ancestors, catches, enclosing, enclosing_loops, enclosing_tries

RAISING_VFS = {"stat", "open", "listdir", "copyto", "unlink"}


def may_raise(ctx, eff, func, concrete, call, target, _memo={}):
    """Exception classes ('FileNotFound', 'OSError') a call may raise, through the call graph."""
    out = set()
    gh = ctx.func("handlers.HandlerMultiplexer.getHandler")

    def visit(f, C, seen):
        key = (f, C)
        if key in seen:
            return
        seen.add(key)
        for c2, t2 in eff.calls_of(f, C):
            classify(c2, t2, f, C, seen)

    def classify(c, t, f, C, seen, top=False):
        if t.kind == "repo" and gh is not None and gh in t.funcs:
            out.add("FileNotFound")
            out.add("OSError")
            return
        if eff.is_vfs_call(t):
            if t.funcs[0].name in RAISING_VFS:
                # inside a try in the callee that catches OSError?  (e.g. handleeaext)
                if top or not any(catches(h, "OSError") for tr in enclosing_tries(f.node, c) for h in tr.handlers):
                    out.add("OSError")
            return
        if t.kind == "ext":
            from ..effects import direct_effects

            if any(e.startswith("FS_") for e in direct_effects(c, t)):
                if top or not any(catches(h, "OSError") for tr in enclosing_tries(f.node, c) for h in tr.handlers):
                    out.add("OSError")
            return
        if t.kind in ("repo", "ctor") and not t.by_name:
            guarded_fnf = (not top) and any(catches(h, "FileNotFound") for tr in enclosing_tries(f.node, c) for h in tr.handlers)
            guarded_os = (not top) and any(catches(h, "OSError") for tr in enclosing_tries(f.node, c) for h in tr.handlers)
            before = set(out)
            for callee in t.funcs:
                if callee is not None:
                    visit(callee, t.bound_cls if t.bound_cls is not None else callee.cls, seen)
            added = out - before
            if guarded_fnf:
                added.discard("FileNotFound")
            if guarded_os:
                added.discard("OSError")
            out.clear()
            out.update(before | added)

    classify(call, target, func, concrete, set(), top=True)
    return out


def entry_loops(func):
    """Loops over directory entries (for statements and comprehensions): the iterable
    derives from listdir()/self.files."""
    loops = []
    for n in ast.walk(func.node):
        if isinstance(n, ast.For):
            text = expand(n.iter, func)
            if "listdir(" in text or "self.files" in text or "dirfiles" in text:
                loops.append(n)
        elif isinstance(n, (ast.ListComp, ast.SetComp, ast.GeneratorExp, ast.DictComp)):
            for g in n.generators:
                text = expand(g.iter, func)
                if "listdir(" in text or "self.files" in text or "dirfiles" in text:
                    loops.append(n)
                    break
    return loops


def check(ctx, rep):
    prog = ctx.prog
    eff = Effects(prog, ctx.resolver)
    rep.rule("R12a", "calls that may raise FileNotFound/OSError inside a per-entry loop are caught inside the loop body and the loop continues", floor=3)
    rep.rule("R12b", "the stat before handler selection is absorbed; no handler test subscripts a missing stat result", floor=8)
    dirbase = ctx.cls("handlers.dir.DirHandler")
    if dirbase is None:
        rep.fail("R12a", "DirHandler", detail="directory handler not found")
        return
    done = set()
    for C in prog.subclasses(dirbase):
        for c in prog.mro(C):
            for m in c.methods.values():
                if prog.resolve_method(C, m.name) is not m:
                    continue
                for loop in entry_loops(m):
                    rep.analysed(m.qualname)
                    for call, t in eff.calls_of(m, C):
                        # calls inside this loop's body
                        if isinstance(loop, ast.For):
                            if not any(anc is loop and field == "body" for anc, field in enclosing(m.node, call)):
                                continue
                        else:
                            inner = [loop.elt] if hasattr(loop, "elt") else [loop.key, loop.value]
                            for g in loop.generators:
                                inner.extend(g.ifs)
                            if not any(x is call for e in inner for x in ast.walk(e)):
                                continue
                        excs = may_raise(ctx, eff, m, C, call, t)
                        if not excs:
                            continue
                        key = (m, id(call), C if t.bound_cls is not None else None)
                        problems = []
                        for exc in sorted(excs):
                            ok = False
                            for tr in enclosing_tries(m.node, call):
                                # the try must be inside the loop body
                                if not any(anc is loop for anc in ancestors(m.node, tr)):
                                    continue
                                for h in tr.handlers:
                                    if catches(h, exc):
                                        w = Walker(prog, ctx.resolver)
                                        paths = w.run_body(h.body, m, C)
                                        if all(p.kind == "fall" for p in paths) or not paths:
                                            # `break` would end the loop: look for it explicitly
                                            if not any(isinstance(x, (ast.Break, ast.Return, ast.Raise)) for x in ast.walk(h)):
                                                ok = True
                                        break
                                if ok:
                                    break
                            if not ok:
                                problems.append(exc)
                        inst = f"{C.name}: {m.qualname}: {norm(call)[:55]}"
                        rep.add("R12a", inst, not problems, ctx.where(m, call),
                                (f"may raise {problems} for one entry (dangling link, special file, entry removed after enumeration, "
                                 f"name rejected by the security filter) and nothing inside the loop catches it: the whole listing fails")
                                if problems else f"may raise {sorted(excs)}: contained per entry",
                                key=f"R12a|{C.name}|{m.qualname}|{norm(call.func)}")

    # ------------------------------------------------------------------ R12b
    gh = ctx.func("handlers.HandlerMultiplexer.getHandler")
    virt = ctx.cls("handlers.virtual.Virtual")
    targets = []
    if gh is not None:
        targets.append((gh, None))
    if virt is not None and "__init__" in virt.methods:
        targets.append((virt.methods["__init__"], virt))
    for f, C in targets:
        stats = [(c, t) for c, t in eff.calls_of(f, C) if eff.is_vfs_call(t) and t.funcs[0].name == "stat"]
        if not stats:
            rep.ok("R12b", f"{f.qualname}: no pre-stat", ctx.where(f), nontrivial=False)
        for c, t in stats:
            caught = any(catches(h, "OSError") for tr in enclosing_tries(f.node, c) for h in tr.handlers)
            problems = []
            if not caught:
                problems.append("a failing stat (ENOENT/EACCES/dangling link) is not caught: every handler list walk aborts")
            else:
                def rp(call, target, _c=c):
                    return ["OSError"] if call is _c else []
                w = Walker(prog, ctx.resolver, raise_points=rp)
                for p in w.run(f, C):
                    raised = [i for i, e in enumerate(p.events) if e.kind == "raise" and e.extra == "implicit" and e.node is c]
                    if not raised:
                        continue
                    if p.kind == "raise" and str(p.value) == "OSError":
                        problems.append("the OSError of the stat is re-raised")
                    last = None
                    for e in p.events[: raised[0]] + p.events[raised[0]:]:
                        if e.kind == "assign" and isinstance(e.target, str) and e.target in ("statresult", "self.statresult"):
                            last = e
                    if last is not None and not (last.extra is not None and last.extra.kind == "const" and last.extra.value is None):
                        problems.append("after a failed stat the stat result is not None")
            rep.add("R12b", f"{f.qualname}: {norm(c)} absorbed", not problems, ctx.where(f, c), "; ".join(sorted(set(problems))),
                    key=f"R12b|{f.qualname}|stat")
    for H in ctx.handler_classes():
        can = prog.resolve_method(H, "canhandlerequest")
        if can is None:
            continue
        subs = set()
        funcs = [can]
        for n in ast.walk(can.node):
            if isinstance(n, ast.Subscript) and norm(n.value) == "self.statresult":
                subs.add(id(n))
        # inlined parents (FileHandler.canhandlerequest(self) / super())
        for c in prog.mro(H):
            m = c.methods.get("canhandlerequest")
            if m is not None:
                for n in ast.walk(m.node):
                    if isinstance(n, ast.Subscript) and norm(n.value) == "self.statresult":
                        subs.add(id(n))
        if not subs:
            continue
        from ..facts import _WatchWalker

        w = _WatchWalker(prog, ctx.resolver, watch=subs, assumptions={"self.statresult": FALSY},
                         inline=lambda fn, t, d: t.bound_cls is not None or (fn.cls is not None and t.kind == "repo" and not t.by_name
                                                                             and len(t.funcs) == 1 and fn.name == "canhandlerequest"),
                         merge_loops=True)
        try:
            w.run(can, H)
            reached = [nid for nid, s in w.snaps.items() if s]
        except Exception:
            reached = ["?"]
        rep.add("R12b", f"{H.qualname}.canhandlerequest tolerates a missing stat result", not reached, ctx.where(can),
                "self.statresult is subscripted on a path where it is None (entry whose stat failed): TypeError" if reached else "",
                key=f"R12b|{H.qualname}|statresult")
