"""C02  Protocol autodetection is deterministic, ordered and strict about TLS.

R02a  first accepting protocol in configured order wins (getProtocol)
R02b  TLS parity: under check_tls() != secure no protocol test can accept
R02c  the protocol tests are total (no unguarded partial operation on request data)
R02d  the shipped lists end in a catch-all per TLS parity and list nothing after it
R02e  the tests are pure (no global writes, time, randomness, file system)
R02f  TLS sniff: one byte, MSG_PEEK, wrap iff 0x16, done inside the worker
"Which protocol wins for near-miss lines" is not decided.
"""

from __future__ import annotations

import ast

from ..effects import Effects
from ..loader import dotted, norm
from ..paths import Const, Walker, truth


def _secure_const(ctx, P):
    a = ctx.prog.class_attr(P, "secure")
    if isinstance(a, ast.Constant) and isinstance(a.value, bool):
        return a.value
    return None


def _inline_self(fn, t, d):
    return t.bound_cls is not None or (fn.cls is not None and t.kind == "repo" and not t.by_name
                                       and len(t.funcs) == 1 and fn.name == "canhandlerequest")


def _next_first_match(value, func, defs):
    """`next((c for c in CANDIDATES if c.canhandlerequest()), default)`: None if `value` is not of that form,
    else the list of problems with it ([] = first accepting candidate, in iteration order, is returned)."""
    from ..facts import expand_ast

    if not (isinstance(value, ast.Call) and isinstance(value.func, ast.Name) and value.func.id == "next" and value.args):
        return None
    g = expand_ast(value.args[0], func, defs) if defs else expand_ast(value.args[0], func)
    if not isinstance(g, ast.GeneratorExp) or len(g.generators) != 1:
        return None
    comp = g.generators[0]
    var = norm(comp.target)
    problems = []
    if norm(g.elt) != var:
        problems.append("the object returned is not the candidate that was tested")
    tests = [t for t in comp.ifs if isinstance(t, ast.Call) and isinstance(t.func, ast.Attribute) and t.func.attr == "canhandlerequest"
             and norm(t.func.value) == var]
    if len(tests) != 1 or len(comp.ifs) != 1:
        problems.append("candidates are not filtered by exactly their own canhandlerequest()")
    src = comp.iter
    # candidates: objects built by calling each class of the list, in order
    if isinstance(src, (ast.GeneratorExp, ast.ListComp)) and len(src.generators) == 1 and not src.generators[0].ifs \
            and isinstance(src.elt, ast.Call) and norm(src.elt.func) == norm(src.generators[0].target):
        pass
    else:
        problems.append(f"candidates come from `{norm(src)[:40]}`, not from calling each configured class in turn")
    return problems


def check(ctx, rep):
    prog = ctx.prog
    eff = Effects(prog, ctx.resolver)
    rep.rule("R02a", "getProtocol returns the first protocol (in list order) whose canhandlerequest() accepts", floor=1)
    rep.rule("R02b", "for every protocol class: under check_tls() != secure, canhandlerequest has no accepting path; "
             "check_tls is isinstance(<connection>, ssl.SSLSocket)", floor=10)
    rep.rule("R02c", "no unguarded partial operation on request data in any protocol test or constructor", floor=5)
    rep.rule("R02d", "each shipped protocol list contains a catch-all per TLS parity, with nothing of that parity after it", floor=4)
    rep.rule("R02e", "protocol tests have no global/time/random/file-system effects", floor=6)
    rep.rule("R02h", "representative request lines are claimed by the protocol whose documented shape they have: constructor and test of every "
             "listed protocol evaluated in list order, per TLS parity", floor=1)
    rep.rule("R02i", "= R05i: the protocols are shown the whole first line - the connection handler does not bound its length (HTTP, Spartan and "
             "Gopher+ are recognised by the *end* of the line; a cut line is claimed by plain Gopher)", floor=1)
    from .c05 import request_length_obligations
    request_length_obligations(ctx, rep, "R02i")
    rep.rule("R02g", "WAP auto-detection agrees with the header table headerslurp() builds (evaluated on 7 header blocks)", floor=7)
    rep.rule("R02f", "sniff: recv(1, MSG_PEEK) only; TLS wrap iff the byte is 0x16; done in the worker, result passed on", floor=4)
    rep.assume("socketserver.StreamRequestHandler keeps the accepted socket in self.request / self.connection")

    protos = ctx.protocol_classes()
    base = ctx.cls("protocols.base.BaseGopherProtocol")
    if base is None or not protos:
        rep.fail("R02b", "protocol classes", detail="BaseGopherProtocol hierarchy not found")
        return

    # ------------------------------------------------------------------ R02a
    gp = ctx.func("protocols.ProtocolMultiplexer.getProtocol")
    if gp is None:
        rep.fail("R02a", "getProtocol", detail="protocol multiplexer not found")
    else:
        rep.analysed(gp.qualname)
        problems = set()
        for call, t in eff.calls_of(gp):
            nm = t.name
            if nm in ("builtins.sorted", "builtins.reversed", "builtins.set", "builtins.frozenset", "random.shuffle", "random.sample") \
                    or (isinstance(call.func, ast.Attribute) and call.func.attr in ("sort", "reverse", "shuffle")):
                problems.add(f"`{norm(call)[:50]}` changes the configured order")
        # the search may live in a helper of the multiplexer's module
        w = Walker(prog, ctx.resolver, inline=lambda fn, t, d: d < 3 and fn.cls is None and fn.module is gp.module and fn is not gp)
        n_ret = 0
        for p in w.run(gp):
            if p.kind != "return":
                continue
            ret = [e for e in p.events if e.kind == "return"][-1]
            if ret.node.value is None or (isinstance(ret.node.value, ast.Constant) and ret.node.value.value is None):
                continue
            if p.value is not None and p.value.kind == "const" and p.value.value is None:
                continue  # the helper's "nobody claimed it" result handed on
            n_ret += 1
            name = norm(ret.node.value)
            inner = [e for e in p.events if e.kind == "return" and e.node.value is not None and e.frame and e.frame[0] is not gp]
            if inner and isinstance(ret.node.value, ast.Call) and not (isinstance(ret.node.value.func, ast.Attribute)):
                # `return helper(...)`: what the helper returned
                name = norm(inner[0].node.value)
            fm = _next_first_match(ret.node.value, gp, ret.defs)
            if fm is not None:
                problems.update(fm)  # `return next(<candidates that accept>, default)`: first match by construction
                continue
            tests = [e for e in p.events if e.kind == "test" and isinstance(e.node, ast.Call)
                     and isinstance(e.node.func, ast.Attribute) and e.node.func.attr == "canhandlerequest"]
            acc = [i for i, e in enumerate(tests) if e.extra is True]
            if not acc:
                problems.add(f"`return {name}` reachable without an accepting canhandlerequest()")
                continue
            first = acc[0]
            if norm(tests[first].node.func.value) != name:
                problems.add(f"returns `{name}`, not the protocol object whose test accepted")
            if len(tests) > first + 1:
                problems.add("keeps testing further protocols after one has accepted (not first-match)")
        if n_ret == 0:
            problems.add("never returns a protocol object")
        rep.add("R02a", "getProtocol first match wins", not problems, ctx.where(gp), "; ".join(sorted(problems)),
                key="R02a|getProtocol|" + ";".join(sorted(problems)))

    # ------------------------------------------------------------------ R02b
    ct = prog.resolve_method(base, "check_tls")
    for P in protos:
        ctp = prog.resolve_method(P, "check_tls")
        if ctp is not None and (ctp is not ct or P is base):
            ok = False
            rets = [n for n in ast.walk(ctp.node) if isinstance(n, ast.Return)]
            if len(rets) == 1 and isinstance(rets[0].value, ast.Call) and dotted(rets[0].value.func) == "isinstance" \
                    and len(rets[0].value.args) == 2:
                a0, a1 = rets[0].value.args
                res = prog.resolve_dotted(ctp.module, dotted(a1) or "")
                ok = norm(a0) in ("self.requesthandler.request", "self.requesthandler.connection") \
                    and res is not None and res[0] == "ext" and res[1] == "ssl.SSLSocket"
            rep.add("R02b", f"{ctp.qualname} tests the connection's TLS-ness", ok, ctx.where(ctp),
                    "check_tls must be isinstance(self.requesthandler.request, ssl.SSLSocket)" if not ok else "",
                    key=f"R02b|{ctp.qualname}|check_tls")
    if ct is None:
        rep.fail("R02b", "check_tls", detail="BaseGopherProtocol.check_tls not found")
    for P in protos:
        K = _secure_const(ctx, P)
        can = prog.resolve_method(P, "canhandlerequest")
        if K is None or can is None:
            rep.fail("R02b", f"{P.qualname} parity", ctx.where(can) if can else "", "class has no constant `secure` flag or no test",
                     key=f"R02b|{P.qualname}")
            continue
        w = Walker(prog, ctx.resolver, assumptions={"self.check_tls()": Const(not K)}, inline=_inline_self)
        bad = [p for p in w.run(can, P) if p.kind == "return" and truth(p.value) is not False]
        rep.add("R02b", f"{P.qualname} (secure={K}) refuses {'plaintext' if K else 'TLS'} connections", not bad, ctx.where(can),
                f"canhandlerequest can accept a {'plaintext' if K else 'TLS'} connection although secure={K}" if bad else "",
                key=f"R02b|{P.qualname}")
        rep.analysed(can.qualname)

    # ------------------------------------------------------------------ R02c
    from .c03 import partial_op_obligations

    funcs = []
    for P in protos:
        for mname in ("canhandlerequest", "__init__"):
            m = prog.resolve_method(P, mname)
            if m is not None and (m, P) not in funcs:
                funcs.append((m, P))
    partial_op_obligations(ctx, rep, "R02c", funcs)

    # ------------------------------------------------------------------ R02d
    lists = ctx.protocol_lists()
    for err in lists.pop("!errors", []):
        rep.fail("R02d", "configured list", detail=err, key="R02d|config|" + err)
    for rel, classes in sorted(lists.items()):
        for K in (False, True):
            catch = None
            problems = []
            for i, P in enumerate(classes):
                if _secure_const(ctx, P) != K:
                    continue
                if catch is not None:
                    problems.append(f"{P.qualname} is listed after the catch-all {catch.qualname} and can never be chosen")
                    continue
                can = prog.resolve_method(P, "canhandlerequest")
                w = Walker(prog, ctx.resolver, assumptions={"self.check_tls()": Const(K)}, inline=_inline_self)
                paths = [p for p in w.run(can, P)]
                if paths and all(p.kind == "return" and truth(p.value) is True for p in paths):
                    catch = P
            if catch is None:
                problems.append(f"no protocol in the list accepts every {'TLS' if K else 'plaintext'} request line (some lines would get no reply)")
            rep.add("R02d", f"{rel}: {'TLS' if K else 'plaintext'} catch-all last", not problems, rel, "; ".join(problems),
                    key=f"R02d|{rel}|{K}|" + ";".join(problems))

    # ------------------------------------------------------------------ R02e
    for P in protos:
        can = prog.resolve_method(P, "canhandlerequest")
        if can is None or not ctx.owns(P, can):
            continue
        summ = eff.summary(can, P)
        bad = sorted(e for e in summ if e.startswith(("GLOBAL_WRITE", "FS_", "EXEC", "EVAL")) or e in ("TIME", "RANDOM"))
        rep.add("R02e", f"{can.qualname} is pure", not bad, ctx.where(can), f"effects: {bad}" if bad else "",
                key=f"R02e|{can.qualname}|{bad}")

    # what a test calls must not remember anything from one connection to the next
    from .c14 import memo_obligations
    reach = set()
    work = []
    for P in protos:
        for nm in ("canhandlerequest", "__init__"):
            m = prog.resolve_method(P, nm)
            if m is not None:
                work.append((m, P))
    while work:
        f, C = work.pop()
        if f in reach:
            continue
        reach.add(f)
        for call, t in eff.calls_of(f, C):
            if t.kind in ("repo", "ctor") and not t.by_name:
                for g in t.funcs:
                    if g is not None and g not in reach:
                        work.append((g, t.bound_cls if t.bound_cls is not None else g.cls))
    memo_obligations(ctx, rep, "R02e", eff, reach)

    wap_autodetect_obligations(ctx, rep, "R02g")
    classification_obligations(ctx, rep, "R02h")

    # ------------------------------------------------------------------ R02f
    bs = ctx.cls("server.BaseServer")
    ws = prog.resolve_method(bs, "wrap_socket") if bs else None
    if ws is None:
        rep.fail("R02f", "BaseServer.wrap_socket", detail="TLS sniffing routine not found")
        return
    rep.analysed(ws.qualname)
    sockparam = ws.params[1] if len(ws.params) > 1 else "sock"
    ev_problems = _sniff_by_evaluation(ctx, bs, ws)
    if ev_problems is not None:
        # decided by evaluating wrap_socket() on scripted first bytes (helpers of the module followed)
        peek = [x for x in ev_problems if x.startswith("peek:")]
        iff = [x for x in ev_problems if not x.startswith("peek:")]
        rep.add("R02f", "wrap_socket peeks one byte without consuming", not peek, ctx.where(ws), "; ".join(x[5:] for x in peek), key="R02f|peek|" + ";".join(peek)[:80])
        rep.add("R02f", "wrap iff first byte is 0x16", not iff, ctx.where(ws), "; ".join(iff[:2]), key="R02f|iff|" + ";".join(iff)[:80])
    problems = set()
    n_recv = 0
    for call, t in eff.calls_of(ws, bs):
        if isinstance(call.func, ast.Attribute) and call.func.attr in ("recv", "recv_into", "recvfrom", "read", "recvmsg"):
            n_recv += 1
            flags = [norm(a) for a in call.args[1:]] + [norm(k.value) for k in call.keywords]
            if not any("MSG_PEEK" in f for f in flags):
                problems.add(f"`{norm(call)}` consumes request bytes (no MSG_PEEK)")
            if not (call.args and isinstance(call.args[0], ast.Constant) and call.args[0].value == 1):
                problems.add(f"`{norm(call)}` does not peek exactly one byte")
    if n_recv == 0:
        problems.add("no peek at the first byte")
    if ev_problems is None:
        rep.add("R02f", "wrap_socket peeks one byte without consuming", not problems, ctx.where(ws), "; ".join(sorted(problems)),
                key="R02f|peek|" + ";".join(sorted(problems)))

    def is_sniff_test(node, func_node) -> bool:
        """`<recv(...)> == b'\\x16'` (directly or through a local bound to the recv call)."""
        if not (isinstance(node, ast.Compare) and len(node.ops) == 1 and isinstance(node.ops[0], (ast.Eq, ast.NotEq))):
            return False
        from ..paths import NOCONST, const_value

        sides = [node.left, node.comparators[0]]
        vals = [const_value(prog, s_, ws, bs) for s_ in sides]  # literals and module/class constants
        const = [v for v in vals if v is not NOCONST]
        other = [s_ for s_, v in zip(sides, vals) if v is NOCONST]
        if len(const) != 1 or const[0] != b"\x16" or len(other) != 1:
            return False
        o = other[0]
        if isinstance(o, ast.Name):
            for n in ast.walk(func_node):
                if isinstance(n, ast.Assign) and any(isinstance(t, ast.Name) and t.id == o.id for t in n.targets):
                    o = n.value
        if isinstance(o, ast.NamedExpr):
            o = o.value
        return isinstance(o, ast.Call) and isinstance(o.func, ast.Attribute) and o.func.attr == "recv"

    w = Walker(prog, ctx.resolver)
    problems = set()
    n_wrap = 0
    for p in w.run(ws, bs):
        if p.kind == "raise":
            continue
        wraps = [e for e in p.calls() if isinstance(e.node.func, ast.Attribute) and e.node.func.attr == "wrap_socket"]
        sniff = [e for e in p.events if e.kind == "test" and is_sniff_test(e.node, ws.node)]
        pol = lambda e: e.extra if isinstance(e.node.ops[0], ast.Eq) else (None if e.extra is None else not e.extra)  # noqa: E731
        sniff_true = any(pol(e) is True for e in sniff)
        sniff_false = any(pol(e) is False for e in sniff)
        ret = [e for e in p.events if e.kind == "return"]
        retval = ret[-1].node.value if ret else None
        if wraps:
            n_wrap += 1
            if not sniff_true:
                problems.add("the connection can be wrapped in TLS without the first byte being 0x16")
            if not (isinstance(retval, ast.Call) and isinstance(retval.func, ast.Attribute) and retval.func.attr == "wrap_socket") \
                    and not (isinstance(retval, ast.Name) and any(e.kind == "assign" and e.target == retval.id and isinstance(e.node, ast.Assign)
                                                                  and isinstance(e.node.value, ast.Call) and "wrap_socket" in norm(e.node.value.func) for e in p.events)):
                problems.add("the TLS-wrapped socket is not what wrap_socket returns")
        else:
            if sniff_true:
                problems.add("first byte is 0x16 but the connection is not wrapped in TLS")
            if not (isinstance(retval, ast.Name) and retval.id == sockparam):
                problems.add("a plaintext connection is not returned unchanged")
    if n_wrap == 0:
        problems.add("no path wraps the socket in TLS")
    if ev_problems is None:
        rep.add("R02f", "wrap iff first byte is 0x16", not problems, ctx.where(ws), "; ".join(sorted(problems)),
                key="R02f|iff|" + ";".join(sorted(problems)))

    # worker entry points
    servers = [c for c in prog.subclasses(bs, strict=True)]
    n_workers = 0
    for S in servers:
        exts = prog.external_bases(S)
        if any(b.endswith("ForkingTCPServer") or b.endswith("ForkingMixIn") for b in exts):
            worker, need_child = "process_request", True
        elif any(b.endswith("ThreadingTCPServer") or b.endswith("ThreadingMixIn") for b in exts):
            worker, need_child = "process_request_thread", False
        else:
            continue
        n_workers += 1
        m = prog.resolve_method(S, worker)
        if m is None:
            rep.fail("R02f", f"{S.qualname}.{worker}", ctx.where(S.module, S.node),
                     "server class does not override the worker entry point: TLS is never sniffed", key=f"R02f|{S.qualname}|worker")
            continue
        _NOIN = ("wrap_socket", "finish_request", "handle_error", "shutdown_request", "close_request", "server_bind", "__init__")
        w = Walker(prog, ctx.resolver, inline=lambda fn, t, d: d < 3 and t.bound_cls is not None and fn.module is m.module and fn.name not in _NOIN)
        problems = set()
        n_fin = 0
        for p in w.run(m, S):
            calls = p.calls()
            fin = [i for i, e in enumerate(p.events) if e.kind == "call" and isinstance(e.node.func, ast.Attribute) and e.node.func.attr == "finish_request"]
            wr = [i for i, e in enumerate(p.events) if e.kind == "call" and e.target.kind == "repo" and ws in e.target.funcs]
            if need_child and wr:
                # the sniff must happen in the child only
                _fv = next((t_.id for a_ in ast.walk(m.node) if isinstance(a_, ast.Assign) and isinstance(a_.value, ast.Call) and dotted(a_.value.func) == "os.fork"
                            for t_ in a_.targets if isinstance(t_, ast.Name)), "pid")
                forked = [e for e in p.events if e.kind == "test" and norm(e.node) in (_fv, f"{_fv} != 0", f"{_fv} > 0", f"{_fv} == 0", f"not {_fv}")]
                in_child = False
                for e in forked:
                    t = norm(e.node)
                    val = e.extra
                    if t in (_fv, f"{_fv} != 0", f"{_fv} > 0") and val is False:
                        in_child = True
                    if t in (f"{_fv} == 0", f"not {_fv}") and val is True:
                        in_child = True
                if not in_child:
                    problems.add("the blocking TLS sniff runs in the accepting (parent) process")
            for i in fin:
                n_fin += 1
                before = [j for j in wr if j < i]
                if not before:
                    problems.add("finish_request is reached without the TLS sniff")
                    continue
                ev = p.events[i]
                arg = ev.node.args[0] if ev.node.args else None
                assigned = [e for e in p.events[before[-1]: i] if e.kind == "assign" and isinstance(e.node, ast.Assign)
                            and isinstance(e.node.value, ast.Call) and e.node.value is p.events[before[-1]].node]
                if not (isinstance(arg, ast.Name) and any(e.target == arg.id for e in assigned)) \
                        and not (isinstance(arg, ast.Call) and arg is p.events[before[-1]].node):
                    problems.add("the socket returned by wrap_socket is not the one passed to finish_request")
        if n_fin == 0:
            problems.add("the worker never calls finish_request")
        rep.add("R02f", f"{m.qualname} sniffs in the worker and hands the result on", not problems, ctx.where(m),
                "; ".join(sorted(problems)), key=f"R02f|{m.qualname}|" + ";".join(sorted(problems)))
    if n_workers == 0:
        rep.fail("R02f", "server classes", detail="no forking/threading server class found")


# ---------------------------------------------------------------------------- R02g
CLASSIFICATION = [
    # (request line, TLS?, class that has to claim it)
    ("/docs/a.txt\r\n", False, "GopherProtocol"), ("/docs/a.txt\r\n", True, "SecureGopherProtocol"),
    ("\r\n", False, "GopherProtocol"), ("\n", True, "SecureGopherProtocol"),
    ("/search\tsome words\r\n", False, "GopherProtocol"), ("/search\tsome words\r\n", True, "SecureGopherProtocol"),
    ("/search\t\r\n", False, "GopherProtocol"), ("/search\tq\t\r\n", False, "GopherProtocol"), ("/search\t\r\n", True, "SecureGopherProtocol"),
    ("/a\tb\tc\td\r\n", False, "GopherProtocol"),
    ("/docs/a.txt\t+\r\n", False, "GopherPlusProtocol"), ("/docs/a.txt\t+\r\n", True, "SecureGopherPlusProtocol"),
    ("/docs/a.txt\t!\r\n", False, "GopherPlusProtocol"), ("/docs\t$\r\n", False, "GopherPlusProtocol"),
    ("/docs/a.txt\t+text/plain\r\n", False, "GopherPlusProtocol"), ("/search\twords\t+\r\n", False, "GopherPlusProtocol"),
    ("/search\twords\t$\r\n", True, "SecureGopherPlusProtocol"), ("/x\t!x\r\n", False, "GopherProtocol"),
    ("GET /docs/a.txt HTTP/1.0\r\n", False, "HTTPProtocol"), ("HEAD / HTTP/1.1\r\n", False, "HTTPProtocol"),
    ("GET /docs/a.txt HTTP/1.0\r\n", True, "HTTPSProtocol"), ("GET /wap/docs HTTP/1.0\r\n", False, "WAPProtocol"),
    ("GET /wap HTTP/1.0\r\n", False, "WAPProtocol"), ("POST / HTTP/1.0\r\n", False, "GopherProtocol"),
    ("GET /docs/a.txt\r\n", False, "GopherProtocol"),
    ("gemini://host.example/docs/a.txt\r\n", True, "GeminiProtocol"), ("gemini://host.example/docs/a.txt\r\n", False, "GopherProtocol"),
    ("host.example /docs/a.txt 0\r\n", False, "SpartanProtocol"), ("host.example /upload 12\r\n", False, "SpartanProtocol"),
    ("host.example /docs/a.txt 0\r\n", True, "SecureGopherProtocol"), ("host.example /docs/a.txt x\r\n", False, "GopherProtocol"),
    # near misses: blanks around an otherwise well-formed line are not part of any of the shapes
    (" GET /docs/a.txt HTTP/1.0\r\n", False, "GopherProtocol"), ("GET /docs/a.txt HTTP/1.0 \r\n", False, "GopherProtocol"),
    (" GET /docs/a.txt HTTP/1.0\r\n", True, "SecureGopherProtocol"), (" GET /wap/docs HTTP/1.0\r\n", False, "GopherProtocol"),
    ("GET  /docs/a.txt HTTP/1.0\r\n", False, "GopherProtocol"),
    (" gemini://host.example/docs/a.txt\r\n", True, "SecureGopherProtocol"), ("\x0bgemini://host.example/\r\n", True, "SecureGopherProtocol"),
    ("\u00a0host.example /docs/a.txt 0\r\n", False, "GopherProtocol"), ("host.example /docs/a.txt 0\u2003\r\n", False, "GopherProtocol"),
    ("host.example /docs/a.txt  0\r\n", False, "GopherProtocol"),
    # Spartan request lines are ASCII: three words with a byte >= 0x80 in any of them are a Gopher selector
    ("Informe A\u00f1o 2023\r\n", False, "GopherProtocol"), ("host.example /men\u00fa 0\r\n", False, "GopherProtocol"),
    ("host.example /\udcff 0\r\n", False, "GopherProtocol"), ("host.example / 0\x85\r\n", False, "GopherProtocol"),
    ("host.example / \u0664\u0662\r\n", False, "GopherProtocol"),
]


def _sniff_by_evaluation(ctx, bs, ws):
    """wrap_socket(sock) evaluated with a socket whose first byte is scripted: the only read is recv(1, MSG_PEEK); the result
    is the TLS-wrapped socket exactly when a context is configured and the byte is 0x16, otherwise the socket itself.
    -> list of problems ('peek:' prefix for the read itself), or None when the walker cannot follow the code."""
    from ..paths import Const, Walker

    prog = ctx.prog
    if len(ws.params) < 2:
        return None

    class _Sock:
        def __repr__(self):
            return "<the accepted socket>"

    class _Ctx:
        def __repr__(self):
            return "<the TLS context>"

    sock, tlsctx = _Sock(), _Ctx()
    problems = []
    decided = 0
    for has_ctx in (True, False):
        for first in (b"\x16", b"G", b"", b"\x17", b"\x15"):
            holder = {}

            def cv(call, target, st, _first=first):
                w = holder["w"]
                f = call.func
                a = w.cur_args or []
                kws = w.cur_kws or {}
                if isinstance(f, ast.Attribute) and w.cur_recv is not None and w.cur_recv.kind == "const" and w.cur_recv.value is sock:
                    if f.attr in ("recv", "recv_into", "recvfrom", "read", "recvmsg", "makefile", "readline"):
                        n_ = st.facts.get("__reads", Const(0)).value
                        st.facts["__reads"] = Const(n_ + 1)
                        flags = a[1] if len(a) > 1 else kws.get("flags")
                        size = a[0] if a else kws.get("bufsize")
                        ok = f.attr == "recv" and size is not None and size.kind == "const" and size.value == 1 \
                            and flags is not None and flags.kind == "const" and "MSG_PEEK" in str(flags.value)
                        if not ok:
                            st.facts["__badread"] = Const(norm(call)[:50])
                        return Const(_first)
                    return None
                if isinstance(f, ast.Attribute) and f.attr == "wrap_socket" and w.cur_recv is not None and w.cur_recv.kind == "const" \
                        and w.cur_recv.value is tlsctx:
                    st.facts["__wrapped"] = Const(bool(a and a[0].kind == "const" and a[0].value is sock))
                    return Const("<TLS socket>")
                return None

            facts = {"self.context": Const(tlsctx if has_ctx else None)}
            w = Walker(prog, ctx.resolver, call_value=cv, assumptions=facts, sticky=set(facts), exact_loops=True, unroll=4,
                       inline=lambda fn, t, d: d < 3 and (t.bound_cls is not None
                                                          or (fn.cls is None and fn.module.name.startswith("pygopherd")
                                                              and fn.module.name not in ("pygopherd.logger", "pygopherd.GopherExceptions"))
                                                          or (fn.cls is not None and fn.module is ws.module)))
            holder["w"] = w
            try:
                paths = w.run(ws, bs, env={ws.params[1]: Const(sock)}, facts=dict(facts))
            except Exception:
                return None
            outs = set()
            for p in paths:
                if p.kind != "return" or p.value is None or p.value.kind != "const":
                    return None
                bad = p.state.facts.get("__badread")
                outs.add((p.value.value if isinstance(p.value.value, str) else ("sock" if p.value.value is sock else "?"),
                          bad.value if bad is not None else None, p.state.facts.get("__reads", Const(0)).value,
                          (p.state.facts.get("__wrapped") or Const(None)).value))
            if len(outs) != 1:
                return None
            res, bad, reads, wrapped = next(iter(outs))
            decided += 1
            if bad:
                problems.append(f"peek:`{bad}` is not recv(1, socket.MSG_PEEK): it consumes request bytes or looks at more than the first one")
            if reads > 1:
                problems.append("peek:the socket is read more than once before the protocol sees it")
            want = "<TLS socket>" if (has_ctx and first == b"\x16") else "sock"
            if res != want:
                problems.append(f"with {'a' if has_ctx else 'no'} TLS context and first byte {first!r} the connection is "
                                f"{'wrapped in TLS' if res == '<TLS socket>' else 'served as it is' if res == 'sock' else 'replaced by something else'} "
                                f"(expected: {'wrapped' if want != 'sock' else 'served as it is'})")
            if res == "<TLS socket>" and wrapped is not True:
                problems.append("the TLS context wraps something other than the accepted socket")
    return problems if decided else None


def classification_obligations(ctx, rep, rule="R02h"):
    """For each shipped protocol list: the constructor and canhandlerequest() of every listed class are evaluated on
    representative first lines (walker, constants), in list order; the first class that accepts has to be the one whose
    documented shape the line has.  Lines the evaluator cannot decide are skipped (counted in the evidence)."""
    from ..paths import Const, Walker

    prog = ctx.prog
    try:
        lists = {k: v for k, v in ctx.protocol_lists().items() if not k.startswith("!")}
    except Exception:
        lists = {}
    undecided = 0
    for rel, classes in sorted(lists.items()):
        names = {c.name for c in classes}
        problems = []
        n = 0
        for line, tls, want in CLASSIFICATION:
            if want not in names:
                continue
            winner = None
            for P in classes:
                init = prog.resolve_method(P, "__init__")
                can = prog.resolve_method(P, "canhandlerequest")
                # a constructor that only hands *args on is skipped
                while init is not None and len(init.params) < 2 and init.node.args.vararg is not None and init.cls is not None:
                    init = prog.resolve_method(P, "__init__", after=init.cls)
                if init is None or can is None:
                    winner = "?"
                    break

                def cv(call, target, st, _tls=tls):
                    f = call.func
                    if isinstance(f, ast.Attribute) and f.attr == "check_tls":
                        return Const(_tls)
                    if isinstance(f, ast.Attribute) and f.attr == "headerslurp":
                        st.facts["self.httpheaders"] = Const({})
                        return Const(None)
                    if isinstance(f, ast.Attribute) and f.attr == "get" and "config" in norm(f.value) and len(call.args) == 2 \
                            and isinstance(call.args[1], ast.Constant) and call.args[1].value == "waptop":
                        return Const("/wap")
                    return None

                inl = lambda fn, t, d: d < 4 and (t.bound_cls is not None or fn.name in ("__init__", "canhandlerequest")  # noqa: E731
                                                  or (fn.cls is None and fn.module.name.startswith("pygopherd.") and fn.module.name not in ("pygopherd.logger", "pygopherd.GopherExceptions"))
                                                  or (fn.cls is not None and any((dotted(dc) or "") == "staticmethod" for dc in fn.node.decorator_list))) and fn.name != "headerslurp"
                w0 = Walker(prog, ctx.resolver, call_value=cv, exact_loops=True, unroll=8, inline=inl)
                reqparam = init.params[1] if len(init.params) > 1 else "request"
                try:
                    ip = [p for p in w0.run(init, P, env={reqparam: Const(line)}) if p.kind != "raise"]
                except Exception:
                    ip = []
                if len(ip) != 1:
                    winner = "?"
                    break
                facts = {k: v for k, v in ip[0].state.facts.items() if k.startswith("self.") and v.kind == "const"}
                w1 = Walker(prog, ctx.resolver, call_value=cv, exact_loops=True, unroll=8, inline=inl, assumptions=facts)
                verdicts = set()
                try:
                    for p in w1.run(can, P, facts=dict(facts)):
                        verdicts.add("raise" if p.kind == "raise" else truth(p.value) if p.kind == "return" else False)
                except Exception:
                    verdicts = {None}
                if verdicts == {True}:
                    winner = P.name
                    break
                if verdicts != {False}:
                    winner = "?"
                    break
            if winner == "?":
                undecided += 1
                rep.extra.setdefault("classification_undecided_lines", []).append(f"{rel}: {line!r} at {P.name}")
                continue
            n += 1
            if winner != want:
                problems.append(f"the {'TLS' if tls else 'plaintext'} line {line!r} is claimed by {winner or 'no protocol'} instead of {want}")
        applicable = sum(1 for _, _, want_ in CLASSIFICATION if want_ in names)
        enough = n * 2 >= applicable
        rep.add(rule, f"{rel}: representative lines are claimed by the documented protocol [{n} lines]", not problems and enough, rel,
                "; ".join(problems[:3]) if problems else ("" if enough else f"only {n} of {applicable} lines could be evaluated by the walker"), key=f"{rule}|{rel}",
                nontrivial=enough)
    rep.extra["classification_undecided"] = undecided


def wap_autodetect_obligations(ctx, rep, rule="R02g"):
    """WAP auto-detection reads the header table that HTTPProtocol.headerslurp() writes: the two have to agree on what a
    stored value looks like.  headerslurp() is evaluated by the walker on a scripted header block (exact loops), then
    WAPProtocol.canhandlerequest() on the table it produced: a request that announces WML in Accept (alone, first or
    later in the list) together with a WAP device header must be taken by the WAP protocol; one without must not."""
    from ..paths import Const, Walker

    prog = ctx.prog
    http = ctx.cls("protocols.http.HTTPProtocol")
    wap = ctx.cls("protocols.wap.WAPProtocol")
    hs = prog.resolve_method(http, "headerslurp") if http else None
    can = prog.resolve_method(wap, "canhandlerequest") if wap else None
    if hs is None or can is None:
        rep.fail(rule, "headerslurp / WAPProtocol.canhandlerequest", detail="header reader or WAP test not found")
        return
    cases = [
        (["Accept: text/vnd.wap.wml", "X-Wap-Profile: http://example.org/p.xml"], True, "WML alone in Accept + x-wap-profile"),
        (["Accept: text/vnd.wap.wml, text/html", "x-up-devcap-max-pdu: 3000"], True, "WML first in Accept + x-up-devcap-max-pdu"),
        (["Accept: text/html, text/vnd.wap.wml", "X-Wap-Profile: x"], True, "WML later in Accept + x-wap-profile"),
        (["Accept:text/html,text/vnd.wap.wml", "X-Wap-Profile: x"], True, "WML later in Accept, no blanks"),
        (["Accept: text/html", "X-Wap-Profile: x"], False, "no WML in Accept"),
        (["Accept: text/vnd.wap.wml"], False, "WML in Accept but no device header"),
        (["User-Agent: curl/8"], False, "no Accept header"),
    ]
    for headers, want, label in cases:
        lines = [(h + "\r\n").encode() for h in headers] + [b"\r\n"]

        def cv(call, target, st, _lines=lines):
            if isinstance(call.func, ast.Attribute) and call.func.attr == "readline" and "rfile" in norm(call.func.value):
                i = st.facts.get("__rl", Const(0)).value
                st.facts["__rl"] = Const(i + 1)
                return Const(_lines[i] if i < len(_lines) else b"")
            return None

        table = None
        undetermined = False
        w = Walker(prog, ctx.resolver, call_value=cv, unroll=len(lines) + 2, exact_loops=True,
                   assumptions={"hasattr(self.requesthandler, 'pygopherd_http_slurped')": Const(False)},
                   inline=lambda fn, t, d: d < 3 and (t.bound_cls is not None or (fn.cls is None and fn.module.name.startswith("pygopherd.protocols"))))
        tables = set()
        for p in w.run(hs, http):
            if p.kind == "raise":
                undetermined = True
                continue
            if "__rl" not in p.state.facts:
                continue  # the path that reuses the table an earlier protocol object of this connection has read
            v = p.state.facts.get("self.httpheaders")
            if v is None or v.kind != "const" or not isinstance(v.value, dict):
                undetermined = True
            else:
                tables.add(tuple(sorted(v.value.items())))
        if undetermined or len(tables) != 1:
            rep.add(rule, f"WAP auto-detection: {label}", False, ctx.where(hs),
                    "the header table headerslurp() builds for this block is not determined by code the analysis understands", key=f"{rule}|{label}")
            continue
        table = dict(next(iter(tables)))

        def cv2(call, target, st):
            d = dotted(call.func) or ""
            if (d.endswith("canhandlerequest") and "HTTPProtocol" in d) or (isinstance(call.func, ast.Attribute) and call.func.attr == "canhandlerequest"
                                                                             and norm(call.func.value).startswith("super(")):
                return Const(True)
            if isinstance(call.func, ast.Attribute) and call.func.attr == "get" and len(call.args) == 2 \
                    and isinstance(call.args[1], ast.Constant) and call.args[1].value == "waptop":
                return Const("/wap")
            if isinstance(call.func, ast.Attribute) and call.func.attr == "headerslurp":
                return Const(None)
            return None

        facts = {"self.requestparts[1]": Const("/docs/a.txt"), "self.httpheaders": Const(table)}
        w2 = Walker(prog, ctx.resolver, call_value=cv2, assumptions=facts, sticky=set(facts), unroll=6, exact_loops=True,
                    inline=lambda fn, t, d: d < 3 and (t.bound_cls is not None or (fn.cls is None and fn.module.name.startswith("pygopherd.protocols")))
                    and fn.name not in ("headerslurp",))
        verdicts = set()
        for p in w2.run(can, wap, facts=dict(facts)):
            if p.kind == "raise":
                verdicts.add("raise:" + str(p.value))
            else:
                verdicts.add(truth(p.value) if p.kind == "return" else False)
        ok = verdicts == ({True} if want else {False})
        rep.add(rule, f"WAP auto-detection: {label} -> {'WAP' if want else 'not WAP'}", ok, ctx.where(can),
                "" if ok else f"with the header table {table!r} (as headerslurp() stores it) the WAP test gives {sorted(map(str, verdicts))}, "
                f"expected {want}: the request is answered by {'plain HTTP' if want else 'the WAP protocol'} instead", key=f"{rule}|{label}")
