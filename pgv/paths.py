"""Path-sensitive abstract walker over function bodies.

Enumerates the feasible control-flow paths of a function (optionally inlining
self-calls / module functions), evaluating conditions three-valued under a set of
*assumptions* (normalised expression text -> abstract value).  Each path yields the
sequence of events (calls, assignments, tests) plus its terminal outcome.  This one
primitive gives: reachability under an assumption, "no truthy return under
assumption", must-pass-through / ordering of events, exhaustive path enumeration.

Loops are unrolled 0, 1 and 2 times; names assigned in the body are forgotten from
the second iteration on and after the loop.  Implicit exceptions are only taken at
call sites a rule designates (raise_points); explicit `raise` is always followed.
"""

from __future__ import annotations

import ast
from typing import Callable, Dict, List, Optional, Tuple

from .loader import ClassInfo, FuncInfo, Program, clear_norm_cache, dotted, norm
from .resolve import Resolver, Target


# ---------------------------------------------------------------- abstract values
class AVal:
    __slots__ = ("kind", "value")

    def __init__(self, kind, value=None):
        self.kind = kind  # 'const' | 'truth' | 'unk'
        self.value = value

    def __repr__(self):
        if self.kind == "const":
            return f"Const({self.value!r})"
        if self.kind == "truth":
            return "Truthy" if self.value else "Falsy"
        if self.kind == "nn":
            return "NotNone"
        return "Unknown"

    def __eq__(self, other):
        return isinstance(other, AVal) and self.kind == other.kind and self.value == other.value

    def __hash__(self):
        return hash((self.kind, repr(self.value)))


def Const(v):
    return AVal("const", v)


TRUTHY = AVal("truth", True)
FALSY = AVal("truth", False)
UNK = AVal("unk")
NOTNONE = AVal("nn")  # some value that is not None (truthiness unknown)


def Ref(obj):
    """Reference to a repository class or function (always truthy)."""
    return AVal("ref", obj)


def Record(fields, values):
    """A (named) tuple whose elements are abstract values: value = (field names or None, tuple of AVal)."""
    return AVal("record", (tuple(fields) if fields else None, tuple(values)))


def truth(av: AVal) -> Optional[bool]:
    if av is not None and av.kind == "record":
        return len(av.value[1]) > 0
    if av.kind in ("ref", "bound", "partial"):
        return True
    if av.kind == "const":
        try:
            return bool(av.value)
        except Exception:
            return None
    if av.kind == "truth":
        return av.value
    return None


class PathLimit(Exception):
    pass


# ------------------------------------------------------------------------- events
class Event:
    __slots__ = ("kind", "node", "target", "frame", "extra", "binds", "defs")

    def __init__(self, kind, node, target=None, frame=None, extra=None):
        self.kind = kind  # 'call' | 'assign' | 'return' | 'raise' | 'test' | 'enter' | 'exit'
        self.node = node
        self.target = target  # Target for calls, target text for assigns
        self.frame = frame  # (FuncInfo, concrete ClassInfo)
        self.extra = extra
        self.binds = None
        self.defs = None

    @property
    def name(self) -> str:
        if self.kind == "call":
            return self.target.name if isinstance(self.target, Target) else str(self.target)
        if self.kind == "assign":
            return str(self.target)
        return self.kind

    @property
    def text(self) -> str:
        return norm(self.node) if self.node is not None else ""

    @property
    def lineno(self):
        return getattr(self.node, "lineno", 0)

    def __repr__(self):
        return f"<{self.kind} {self.name} @{self.lineno}>"


class State:
    __slots__ = ("env", "facts", "events", "exc", "depth", "stack", "defs", "outer")

    def __init__(self, env=None, facts=None, events=(), exc=None, depth=0, stack=(), defs=None):
        self.defs: Dict[str, ast.AST] = defs if defs is not None else {}  # local name -> defining expression (flow-sensitive)
        self.env: Dict[str, AVal] = env if env is not None else {}
        self.facts: Dict[str, AVal] = facts if facts is not None else {}
        self.events: Tuple[Event, ...] = events
        self.exc = exc  # exception currently being handled (for bare raise)
        self.depth = depth
        self.stack = stack  # tuple of FuncInfo being inlined
        # inside a generator that feeds a for loop: the suspended consumer's (env, defs, facts-or-None, return value)
        self.outer = None

    def copy(self) -> "State":
        c = State(dict(self.env), dict(self.facts), self.events, self.exc, self.depth, self.stack, dict(self.defs))
        if self.outer is not None:
            oe, od, of, rv = self.outer
            c.outer = (dict(oe), dict(od), dict(of) if of is not None else None, rv)
        return c

    def add(self, ev: Event) -> None:
        self.events = self.events + (ev,)


class Path:
    """One enumerated path: terminal kind + value + state."""

    __slots__ = ("kind", "value", "state")

    def __init__(self, kind, value, state):
        self.kind = kind  # 'return' | 'raise' | 'fall'
        self.value = value  # AVal for return / exception name for raise
        self.state = state

    @property
    def events(self):
        return self.state.events

    def calls(self, pred=None):
        return [e for e in self.state.events if e.kind == "call" and (pred is None or pred(e))]

    def __repr__(self):
        return f"<Path {self.kind} {self.value} events={len(self.state.events)}>"


EXC_PARENTS = {
    "IOError": "OSError", "EnvironmentError": "OSError", "FileNotFoundError": "OSError",
    "PermissionError": "OSError", "ConnectionError": "OSError", "BrokenPipeError": "ConnectionError",
    "ConnectionResetError": "ConnectionError", "TimeoutError": "OSError", "timeout": "OSError",
    "OSError": "Exception", "KeyError": "LookupError", "IndexError": "LookupError",
    "LookupError": "Exception", "ValueError": "Exception", "UnicodeError": "ValueError",
    "UnicodeEncodeError": "UnicodeError", "UnicodeDecodeError": "UnicodeError",
    "TypeError": "Exception", "AttributeError": "Exception", "StopIteration": "Exception",
    "RuntimeError": "Exception", "NotImplementedError": "RuntimeError", "EOFError": "Exception",
    "ImportError": "Exception", "UnpicklingError": "PickleError", "PickleError": "Exception",
    "FileNotFound": "Exception", "AssertionError": "Exception", "NoSuchMailboxError": "Error",
    "Error": "Exception", "Exception": "BaseException", "SystemExit": "BaseException",
    "KeyboardInterrupt": "BaseException", "PathNotFoundException": "Exception",
    "ContextContentException": "Exception", "TemplateParseException": "Exception",
    "ContextVariable": "BaseException",
}


def exc_matches(raised: str, caught: str) -> bool:
    """Is exception class `raised` caught by `except caught`? (by simple name)"""
    raised = raised.split(".")[-1]
    caught = caught.split(".")[-1]
    if caught in ("BaseException",):
        return True
    seen = set()
    cur = raised
    while cur and cur not in seen:
        if cur == caught:
            return True
        if caught == "OSError" and cur in ("IOError", "EnvironmentError"):
            return True
        if caught in ("IOError", "EnvironmentError") and cur == "OSError":
            return True
        seen.add(cur)
        cur = EXC_PARENTS.get(cur)
    if raised not in EXC_PARENTS and caught == "Exception":
        return True  # unknown classes are assumed to derive from Exception
    return False


def handler_names(h: ast.ExceptHandler) -> List[str]:
    from .loader import EXC_ALIASES

    if h.type is None:
        return ["BaseException"]
    elts = h.type.elts if isinstance(h.type, ast.Tuple) else [h.type]
    out = []
    for e in elts:
        if isinstance(e, ast.Starred):
            e = e.value
        if isinstance(e, ast.Name) and e.id in EXC_ALIASES:
            out.extend(EXC_ALIASES[e.id])
        else:
            out.append(dotted(e) or norm(e))
    return out


def suppress_try(with_node):
    """`with contextlib.suppress(A, B): body` read as `try: body / except (A, B): pass` (None for any other with)."""
    cached = getattr(with_node, "_pgv_suppress", False)
    if cached is not False:
        return cached
    res = None
    for item in getattr(with_node, "items", []):
        ce = item.context_expr
        if isinstance(ce, ast.Call) and (dotted(ce.func) or "").split(".")[-1] == "suppress" and ce.args and not ce.keywords:
            typ = ast.Tuple(elts=list(ce.args), ctx=ast.Load()) if len(ce.args) > 1 or isinstance(ce.args[0], ast.Starred) else ce.args[0]
            hd = ast.ExceptHandler(type=typ, name=None, body=[ast.Pass()])
            res = ast.Try(body=with_node.body, handlers=[hd], orelse=[], finalbody=[])
            for n_ in (hd, res, hd.body[0]):
                ast.copy_location(n_, with_node)
            ast.fix_missing_locations(res)
            res._pgv_origin = with_node
            hd._pgv_origin = with_node
            break
    try:
        with_node._pgv_suppress = res
    except Exception:
        pass
    return res


def assigned_names(nodes) -> set:
    """Normalised texts of every assignment target inside the given statements."""
    out = set()
    for st in nodes:
        for n in ast.walk(st):
            tgts = []
            if isinstance(n, ast.Assign):
                tgts = n.targets
            elif isinstance(n, (ast.AugAssign, ast.AnnAssign)):
                tgts = [n.target]
            elif isinstance(n, (ast.For, ast.AsyncFor)):
                tgts = [n.target]
            elif isinstance(n, ast.NamedExpr):
                tgts = [n.target]
            elif isinstance(n, (ast.With, ast.AsyncWith)):
                tgts = [i.optional_vars for i in n.items if i.optional_vars is not None]
            for t in tgts:
                for e in ast.walk(t):
                    if isinstance(e, (ast.Name, ast.Attribute, ast.Subscript)):
                        out.add(norm(e))
    return out


class Walker:
    def __init__(
        self,
        prog: Program,
        resolver: Resolver = None,
        assumptions: Dict[str, AVal] = None,
        inline: Callable[[FuncInfo, Target, int], bool] = None,
        raise_points: Callable[[ast.Call, Target], List[str]] = None,
        call_value: Callable[[ast.Call, Target, "State"], Optional[AVal]] = None,
        expr_value: Callable[[ast.AST, "State"], Optional[AVal]] = None,
        fork_returns: bool = False,
        symbols: Dict[str, str] = None,
        merge_loops: bool = False,
        sticky=None,
        max_paths: int = 400000,
        max_depth: int = 4,
        recursion: int = 0,
        unroll: int = 2,
        exact_loops: bool = False,
        store_hook: Callable[[ast.AST, AVal, "State"], None] = None,
        inline_by_name: bool = False,
    ):
        self.inline_by_name = inline_by_name
        self.cur_recv = None
        self.prog = prog
        self.store_hook = store_hook
        self.resolver = resolver or Resolver(prog)
        self.assumptions = assumptions or {}
        self.inline = inline or (lambda f, t, d: False)
        self.raise_points = raise_points
        self.call_value = call_value
        self.expr_value = expr_value
        self.fork_returns = fork_returns
        self.merge_loops = merge_loops
        # assumptions that no assignment can invalidate: call atoms (`x.m()`), plus any key listed in `sticky`
        self.sticky = set(sticky or ())
        self.symbols = symbols or {}
        self.max_paths = max_paths
        self.max_depth = max_depth
        self.recursion = recursion  # how many frames of one function may be open at a time beyond the first (evaluator mode)
        self.unroll = unroll
        # exact_loops: the walker is used as an evaluator on constants - every iteration continues exactly from the
        # state the previous one left (nothing is forgotten); a loop still running after `unroll` iterations ends the
        # path with the pseudo exception "UnrollLimit" instead of being summarised
        self.exact_loops = exact_loops
        self._budget = 0
        self._gen_stack = []   # yield handlers of the generators being run for a for loop
        self._gen_bodies = []  # the bodies of those for loops
        self.frame: Tuple[Optional[FuncInfo], Optional[ClassInfo]] = (None, None)

    # ------------------------------------------------------------------ API
    def run(self, func: FuncInfo, concrete: ClassInfo = None, env: Dict[str, AVal] = None,
            facts: Dict[str, AVal] = None) -> List[Path]:
        self._budget = self.max_paths
        st = State(env=dict(env or {}), facts=dict(self.assumptions))
        if facts:
            st.facts.update(facts)
        return self._run_func(func, concrete or func.cls, st)

    def run_body(self, body, func: FuncInfo, concrete: ClassInfo = None) -> List[Path]:
        """Walk an arbitrary statement list in the context of func (e.g. module body)."""
        self._budget = self.max_paths
        st = State(facts=dict(self.assumptions))
        old = self.frame
        self.frame = (func, concrete)
        try:
            outs = self.exec_block(body, st)
        finally:
            self.frame = old
        return [self._to_path(k, v, s) for k, v, s in outs]

    def _to_path(self, k, v, s):
        if k == "next":
            return Path("fall", Const(None), s)
        if k in ("break", "continue"):
            return Path("fall", Const(None), s)
        return Path(k, v, s)

    def _run_func(self, func: FuncInfo, concrete, st: State) -> List[Path]:
        old = self.frame
        self.frame = (func, concrete)
        try:
            outs = self.exec_block(func.node.body, st)
        finally:
            self.frame = old
        return [self._to_path(k, v, s) for k, v, s in outs]

    def _tick(self):
        self._budget -= 1
        if self._budget < 0:
            raise PathLimit()

    # ------------------------------------------------------------ statements
    def exec_block(self, stmts, st: State):
        """-> list of (kind, payload, state); kind in next/return/raise/break/continue."""
        cur = [st]
        done = []
        for stmt in stmts:
            nxt = []
            for s in cur:
                for k, v, s2 in self.exec_stmt(stmt, s):
                    if k == "next":
                        nxt.append(s2)
                    else:
                        done.append((k, v, s2))
            cur = nxt
            if not cur:
                break
        return done + [("next", None, s) for s in cur]

    def _vals(self, results, cont):
        """results of eval_expr -> statement outcomes via cont(aval, state)."""
        out = []
        for r in results:
            if r[0] == "raise":
                out.append(("raise", r[1], r[2]))
            else:
                out.extend(cont(r[1], r[2]))
        return out

    def exec_stmt(self, stmt, st: State):
        self._tick()
        m = getattr(self, "s_" + type(stmt).__name__, None)
        if m is None:
            # unknown statement kind: evaluate contained calls conservatively
            return self._generic_stmt(stmt, st)
        return m(stmt, st)

    def _generic_stmt(self, stmt, st):
        for n in ast.walk(stmt):
            if isinstance(n, ast.Call):
                st.add(Event("call", n, self.resolver.resolve(n, self.frame[0], self.frame[1]), self.frame))
        return [("next", None, st)]

    def s_Pass(self, stmt, st):
        return [("next", None, st)]

    s_Global = s_Nonlocal = s_Import = s_ImportFrom = s_Pass

    def s_FunctionDef(self, stmt, st):
        st.env[stmt.name] = TRUTHY
        return [("next", None, st)]

    s_ClassDef = s_AsyncFunctionDef = s_FunctionDef

    def s_Expr(self, stmt, st):
        return self._vals(self.eval(stmt.value, st), lambda v, s: [("next", None, s)])

    def s_Assert(self, stmt, st):
        def cont(v, s):
            self.assume(s, stmt.test, True)
            return [("next", None, s)]
        return self._vals(self.eval(stmt.test, st), cont)

    def s_Delete(self, stmt, st):
        for t in stmt.targets:
            self._kill(st, t)
        return [("next", None, st)]

    def _kill(self, st: State, target):
        """Forget everything known about an assignment target."""
        for e in ast.walk(target):
            if isinstance(e, ast.Name) and isinstance(target, ast.Name):
                st.env.pop(e.id, None)
        key = norm(target)
        for k in list(st.facts):
            if k == key or _mentions(k, key):
                if k in self.assumptions and (k in self.sticky or (k.endswith(")") and k != key)):
                    continue
                del st.facts[k]

    def _freeze_dependents(self, st: State, name: str):
        """`name` is about to be rebound (or forgotten): definitions of other locals that mention it keep meaning the
        value it had when they were made, so substitute that value now (or forget the definition when it is unknown)."""
        if not st.defs:
            return
        stale = [k for k, v in st.defs.items() if k != name and name in _names_of(v)]
        if not stale:
            return
        import copy

        oldv = st.defs.get(name)
        for k in stale:
            if oldv is None or name in _names_of(oldv):
                del st.defs[k]
                continue

            class _Fr(ast.NodeTransformer):
                def visit_Name(self, n, _o=oldv, _t=name):
                    if n.id == _t and isinstance(n.ctx, ast.Load):
                        return copy.deepcopy(_o)
                    return n

            nv = _Fr().visit(copy.deepcopy(st.defs[k]))
            if sum(1 for _ in ast.walk(nv)) < 300:
                st.defs[k] = clear_norm_cache(ast.fix_missing_locations(nv))
            else:
                del st.defs[k]

    def _bind(self, st: State, target, val: AVal, node=None, defexpr=None):
        if isinstance(target, ast.Name) and self.frame[0] is not None and target.id in _declared_globals(self.frame[0]):
            # a module-level name (`global x`): it is shared by every frame, so it lives with the facts
            st.env.pop(target.id, None)
            st.facts[target.id] = val
            st.add(Event("assign", node or target, target.id, self.frame, val))
            return
        if isinstance(target, ast.Name):
            self._kill(st, target)
            st.env[target.id] = val
            self._freeze_dependents(st, target.id)
            if defexpr is None and isinstance(node, (ast.Assign, ast.AnnAssign, ast.NamedExpr)) and getattr(node, "value", None) is not None:
                defexpr = node.value
            if defexpr is not None and not any(isinstance(n, ast.Name) and n.id == target.id for n in ast.walk(defexpr)):
                st.defs[target.id] = defexpr
            elif defexpr is not None and target.id in st.defs:
                # x = f(x): substitute the previous definition
                import copy

                old = st.defs[target.id]

                class _Sub(ast.NodeTransformer):
                    def visit_Name(self, n):
                        if n.id == target.id and isinstance(n.ctx, ast.Load):
                            return copy.deepcopy(old)
                        return n

                new = _Sub().visit(copy.deepcopy(defexpr))
                if sum(1 for _ in ast.walk(new)) < 200:
                    st.defs[target.id] = clear_norm_cache(ast.fix_missing_locations(new))
                else:
                    st.defs.pop(target.id, None)
            else:
                st.defs.pop(target.id, None)
            st.add(Event("assign", node or target, target.id, self.frame, val))
        elif isinstance(target, (ast.Attribute, ast.Subscript)):
            self._kill(st, target)
            st.facts[norm(target)] = val
            if self.store_hook is not None:
                self.store_hook(target, val, st)
            ev = Event("assign", node or target, norm(target), self.frame, val)
            ev.defs = dict(st.defs)
            st.add(ev)
        elif isinstance(target, (ast.Tuple, ast.List)):
            src = defexpr
            if src is None and isinstance(node, ast.Assign):
                src = node.value
            stars = [i for i, e in enumerate(target.elts) if isinstance(e, ast.Starred)]
            if len(stars) == 1 and val.kind == "const" and isinstance(val.value, (tuple, list)) and len(val.value) >= len(target.elts) - 1:
                # a, *rest, z = <known sequence>
                k = stars[0]
                items = list(val.value)
                tail = len(target.elts) - k - 1
                for i, e in enumerate(target.elts):
                    if i < k:
                        sub_ = Const(items[i])
                    elif i == k:
                        sub_ = Const(items[k:len(items) - tail])
                    else:
                        sub_ = Const(items[len(items) - (len(target.elts) - i)])
                    self._bind(st, e.value if isinstance(e, ast.Starred) else e, sub_, node)
                return
            for i, e in enumerate(target.elts):
                sub = UNK
                if val.kind == "const" and isinstance(val.value, (tuple, list)) and len(val.value) == len(target.elts):
                    sub = Const(val.value[i])
                elif val.kind == "record" and len(val.value[1]) == len(target.elts):
                    sub = val.value[1][i]
                de = ast.Subscript(value=src, slice=ast.Constant(value=i), ctx=ast.Load()) if src is not None else None
                self._bind(st, e.value if isinstance(e, ast.Starred) else e, sub, node, defexpr=de)

    def s_Assign(self, stmt, st):
        def cont(v, s):
            outs = [s]
            for t in stmt.targets:
                base_before = self._lookup(t.value, s) if isinstance(t, ast.Subscript) else None
                self._bind(s, t, v, stmt)
                if isinstance(t, ast.Subscript) and base_before is not None and base_before.kind == "const" \
                        and isinstance(base_before.value, (dict, list)):
                    # the container changes: a constant value known for it is updated (constant key and value) or forgotten
                    newbase = UNK
                    try:
                        kres = self.eval(t.slice, s) if not isinstance(t.slice, ast.Slice) else []
                    except PathLimit:
                        raise
                    except Exception:
                        kres = []
                    if len(kres) == 1 and kres[0][0] == "val" and kres[0][1].kind == "const" and v.kind == "const":
                        import copy as _copy

                        try:
                            c = _copy.copy(base_before.value)
                            c[kres[0][1].value] = v.value
                            newbase = Const(c)
                        except Exception:
                            newbase = UNK
                    if isinstance(t.value, ast.Name):
                        s.env[t.value.id] = newbase
                    else:
                        s.facts[norm(t.value)] = newbase
                # container[<expr>] = v: when the key evaluates to a constant the element is also known under that
                # constant key (`d[k.lower()] = v` is later read as `d['accept']`)
                if isinstance(t, ast.Subscript) and not isinstance(t.slice, (ast.Slice, ast.Constant)) and v.kind == "const":
                    try:
                        res = self.eval(t.slice, s)
                    except PathLimit:
                        raise
                    except Exception:
                        res = []
                    if len(res) == 1 and res[0][0] == "val" and res[0][1].kind == "const" and isinstance(res[0][1].value, (str, int, bytes)):
                        s2 = res[0][2]
                        s2.facts[f"{norm(t.value)}[{res[0][1].value!r}]"] = v
                        outs = [s2]
                        s = s2
            return [("next", None, s)]
        return self._vals(self.eval(stmt.value, st), cont)

    def s_AnnAssign(self, stmt, st):
        if stmt.value is None:
            return [("next", None, st)]
        def cont(v, s):
            self._bind(s, stmt.target, v, stmt)
            return [("next", None, s)]
        return self._vals(self.eval(stmt.value, st), cont)

    def s_AugAssign(self, stmt, st):
        def cont(v, s):
            old = self._lookup(stmt.target, s)
            newv = UNK
            if old is not None and old.kind == "const" and v.kind == "const":
                newv = _binop(stmt.op, old.value, v.value)
            self._bind(s, stmt.target, newv, stmt)
            return [("next", None, s)]
        return self._vals(self.eval(stmt.value, st), cont)

    def s_Return(self, stmt, st):
        if stmt.value is None:
            st.add(Event("return", stmt, None, self.frame, Const(None)))
            return [("return", Const(None), st)]
        def cont(v, s):
            if self.fork_returns and truth(v) is None:
                s_t, s_f = s, s.copy()
                self.assume(s_t, stmt.value, True)
                self.assume(s_f, stmt.value, False)
                s_t.add(Event("return", stmt, None, self.frame, TRUTHY))
                s_f.add(Event("return", stmt, None, self.frame, FALSY))
                return [("return", TRUTHY, s_t), ("return", FALSY, s_f)]
            ev = Event("return", stmt, None, self.frame, v)
            ev.defs = dict(s.defs) if s.defs else None
            s.add(ev)
            return [("return", v, s)]
        return self._vals(self.eval(stmt.value, st), cont)

    def s_Raise(self, stmt, st):
        if stmt.exc is None:
            st.add(Event("raise", stmt, st.exc or "reraise", self.frame))
            return [("raise", st.exc or "Exception", st)]
        name = None
        e = stmt.exc
        if isinstance(e, ast.Name) and e.id in st.defs:
            d = st.defs[e.id]
            if isinstance(d, ast.Call):
                name = dotted(d.func)
        if name is None and isinstance(e, ast.Name) and st.env.get(e.id) is TRUTHY and ("__excname." + e.id) in st.facts:
            # `raise e` inside `except X as e`: the exception that was caught
            name = st.facts["__excname." + e.id].value
        if name is None and isinstance(e, ast.Name) and e.id not in st.env and self.frame[0] is not None:
            # a module-level instance kept for raising: NAME = SomeException()
            vals = self.frame[0].module.globals.get(e.id) or []
            if len(vals) == 1 and isinstance(vals[0], ast.Call) and dotted(vals[0].func):
                name = dotted(vals[0].func)
        if name is not None:
            pass
        elif isinstance(e, ast.Call):
            name = dotted(e.func)
        else:
            name = dotted(e)
        def cont(v, s):
            s.add(Event("raise", stmt, name or "Exception", self.frame))
            return [("raise", (name or "Exception").split(".")[-1], s)]
        return self._vals(self.eval(e, st), cont)

    def s_Break(self, stmt, st):
        return [("break", None, st)]

    def s_Continue(self, stmt, st):
        return [("continue", None, st)]

    def s_If(self, stmt, st):
        out = []
        for r in self.eval(stmt.test, st):
            if r[0] == "raise":
                out.append(("raise", r[1], r[2]))
                continue
            _, v, s = r
            t = truth(v)
            if t is True:
                ev = Event("test", stmt.test, None, self.frame, True)
                ev.defs = dict(s.defs)
                s.add(ev)
                out.extend(self.exec_block(stmt.body, s))
            elif t is False:
                ev = Event("test", stmt.test, None, self.frame, False)
                ev.defs = dict(s.defs)
                s.add(ev)
                out.extend(self.exec_block(stmt.orelse, s))
            else:
                s1, s2 = s, s.copy()
                self.assume(s1, stmt.test, True)
                self.assume(s2, stmt.test, False)
                out.extend(self.exec_block(stmt.body, s1))
                out.extend(self.exec_block(stmt.orelse, s2))
        return out

    def _havoc(self, st: State, body):
        if st.outer is not None and self._gen_bodies:
            # a loop inside a generator: what the consuming loop body assigns is forgotten as well
            oe, od, of, rv = st.outer
            for cbody in self._gen_bodies:
                for key in assigned_names(cbody):
                    try:
                        node = ast.parse(key, mode="eval").body
                    except SyntaxError:
                        continue
                    if isinstance(node, ast.Name):
                        oe[node.id] = UNK
                        od.pop(node.id, None)
                    else:
                        self._kill(st, node)
                        if of is not None:
                            for k in list(of):
                                if k == key or _mentions(k, key):
                                    del of[k]
        for key in assigned_names(body):
            try:
                node = ast.parse(key, mode="eval").body
            except SyntaxError:
                continue
            self._kill(st, node)
            if isinstance(node, ast.Name):
                st.env[node.id] = UNK
                self._freeze_dependents(st, node.id)
                st.defs.pop(node.id, None)

    def _loop(self, st: State, body, orelse, test_fn, bind_fn):
        """Generic loop: test_fn(state)-> list of (enter: Optional[bool], state)."""
        out = []
        pending = [(st, 0)]
        entry = st.copy() if self.merge_loops else None
        merged_done = set()
        while pending:
            s, it = pending.pop()
            if self.merge_loops and it >= 1:
                # all states continuing into iteration `it` are represented by one: the loop
                # entry state with every loop-assigned name forgotten (fewer facts = sound
                # for guard analyses; events of earlier iterations are dropped)
                if it in merged_done:
                    continue
                merged_done.add(it)
                s = entry.copy()
            if it >= 1 and not self.exact_loops:
                # later iterations: forget loop-assigned names (sound for any iteration)
                self._havoc(s, body)
            for enter, s2 in test_fn(s, it):
                if isinstance(enter, tuple):  # propagated raise
                    out.append(enter + (s2,))
                    continue
                branches = []
                if enter is True:
                    branches = [(True, s2)]
                elif enter is False:
                    branches = [(False, s2)]
                else:
                    branches = [(True, s2), (False, s2.copy())]
                for go, s3 in branches:
                    if not go:
                        if it >= 1 and not self.exact_loops:
                            self._havoc(s3, body)
                        out.extend(self.exec_block(orelse, s3))
                        continue
                    if it >= self.unroll:
                        if self.exact_loops:
                            out.append(("raise", "UnrollLimit", s3))
                        continue  # deeper iterations are represented by the havocked one
                    bind_fn(s3, it)
                    for k, v, s4 in self.exec_block(body, s3):
                        if k == "break":
                            self._havoc(s4, body) if (it >= 1 and not self.exact_loops) else None
                            out.append(("next", None, s4))
                        elif k in ("next", "continue"):
                            pending.append((s4, it + 1))
                        else:
                            out.append((k, v, s4))
        return out

    def s_While(self, stmt, st):
        def test_fn(s, it):
            res = []
            for r in self.eval(stmt.test, s):
                if r[0] == "raise":
                    res.append((("raise", r[1]), r[2]))
                    continue
                t = truth(r[1])
                if t is None:
                    s_t, s_f = r[2], r[2].copy()
                    self.assume(s_t, stmt.test, True)
                    self.assume(s_f, stmt.test, False)
                    res.append((True, s_t))
                    res.append((False, s_f))
                else:
                    res.append((t, r[2]))
            return res
        return self._loop(st, stmt.body, stmt.orelse, test_fn, lambda s, it: None)

    def s_For(self, stmt, st):
        it = stmt.iter
        if isinstance(it, ast.Call) and dotted(it.func) == "iter" and len(it.args) == 2 and not it.keywords:
            return self._for_iter_sentinel(stmt, st)
        if isinstance(it, ast.Call) and st.depth <= self.max_depth:
            tgt = self.resolver.resolve(it, self.frame[0], self.frame[1])
            if tgt.kind == "repo" and len(tgt.funcs) == 1 and tgt.funcs[0] is not None and not tgt.by_name and _is_generator(tgt.funcs[0]) \
                    and tgt.funcs[0] not in st.stack:
                return self._for_generator(stmt, st, tgt)
        out = []
        disp = stmt.iter
        if isinstance(disp, ast.Name) and isinstance(st.defs.get(disp.id), (ast.Tuple, ast.List)):
            disp = st.defs[disp.id]
        if isinstance(disp, (ast.Tuple, ast.List)) and 0 < len(disp.elts) <= 16 and not any(isinstance(e, ast.Starred) for e in disp.elts) \
                and not all(isinstance(e, ast.Constant) for e in disp.elts) and isinstance(stmt.target, ast.Name):
            # a display of expressions (functions, bound methods, records): one turn per element, the element evaluated in place
            cur = [st]
            for elt in disp.elts:
                nxt = []
                for s in cur:
                    for r in self.eval(elt, s):
                        if r[0] == "raise":
                            out.append(("raise", r[1], r[2]))
                            continue
                        _, ev_, s1 = r
                        self._bind(s1, stmt.target, ev_, stmt, defexpr=elt)
                        for k, v, s2 in self.exec_block(stmt.body, s1):
                            if k in ("next", "continue"):
                                nxt.append(s2)
                            elif k == "break":
                                out.append(("next", None, s2))
                            else:
                                out.append((k, v, s2))
                cur = nxt
            for s in cur:
                out.extend(self.exec_block(stmt.orelse, s))
            return out
        for r in self.eval(stmt.iter, st):
            if r[0] == "raise":
                out.append(("raise", r[1], r[2]))
                continue
            _, itv, s0 = r
            items = None
            if itv.kind == "const" and isinstance(itv.value, (tuple, list, dict)) and len(itv.value) <= (64 if self.exact_loops else 16):
                items = list(itv.value)
            if items is not None:
                # concrete iteration
                cur = [s0]
                for item in items:
                    nxt = []
                    for s in cur:
                        self._bind(s, stmt.target, Const(item), stmt)
                        for k, v, s2 in self.exec_block(stmt.body, s):
                            if k in ("next", "continue"):
                                nxt.append(s2)
                            elif k == "break":
                                out.append(("next", None, s2))
                            else:
                                out.append((k, v, s2))
                    cur = nxt
                for s in cur:
                    out.extend(self.exec_block(stmt.orelse, s))
                continue

            def test_fn(s, it):
                return [(None, s)]

            def bind_fn(s, it):
                self._bind(s, stmt.target, UNK, stmt,
                           defexpr=ast.Subscript(value=stmt.iter, slice=ast.Constant(value="*"), ctx=ast.Load()))

            out.extend(self._loop(s0, stmt.body, stmt.orelse, test_fn, bind_fn))
        return out

    s_AsyncFor = s_For

    def _for_iter_sentinel(self, stmt, st):
        """for x in iter(f, sentinel):  ==  while True: x = f(); if x == sentinel: break; <body>"""
        it = stmt.iter
        callnode = getattr(stmt, "_pgv_itercall", None)
        if callnode is None:
            f = it.args[0]
            if isinstance(f, ast.Name) and isinstance(st.defs.get(f.id), (ast.Call, ast.Lambda, ast.Attribute)):
                f = st.defs[f.id]  # read = functools.partial(rfile.read, N); for data in iter(read, b""):
            if isinstance(f, ast.Call) and (dotted(f.func) or "").split(".")[-1] == "partial" and f.args:
                callnode = ast.Call(func=f.args[0], args=list(f.args[1:]), keywords=list(f.keywords))
            elif isinstance(f, ast.Lambda) and not f.args.args:
                callnode = f.body
            else:
                callnode = ast.Call(func=f, args=[], keywords=[])
            ast.copy_location(callnode, it)
            ast.fix_missing_locations(callnode)
            stmt._pgv_itercall = callnode
        sent = it.args[1]
        key = "__iterval%d" % id(stmt)

        def test_fn(s, n):
            res = []
            for r in self.eval(callnode, s):
                if r[0] == "raise":
                    res.append((("raise", r[1]), r[2]))
                    continue
                v = r[1]
                for r2 in self.eval(sent, r[2]):
                    if r2[0] == "raise":
                        res.append((("raise", r2[1]), r2[2]))
                        continue
                    sv, s3 = r2[1], r2[2]
                    s3.env[key] = v
                    if v.kind == "const" and sv.kind == "const":
                        res.append((v.value != sv.value, s3))
                    else:
                        res.append((None, s3))
            return res

        def bind_fn(s, n):
            v = s.env.pop(key, UNK)
            self._bind(s, stmt.target, v, stmt, defexpr=callnode)

        outs = self._loop(st, stmt.body, stmt.orelse, test_fn, bind_fn)
        for k, v, s in outs:
            s.env.pop(key, None)
        return outs

    def _for_generator(self, stmt, st, target):
        """for x in gen(...): the generator's body is walked; at each `yield v` the loop body runs with x = v."""
        call = stmt.iter
        callee = target.funcs[0]
        caller_frame = self.frame
        argnodes = [a.value if isinstance(a, ast.Starred) else a for a in call.args]
        kwnodes = [k.value for k in call.keywords]
        pre = []
        if isinstance(call.func, ast.Attribute) and dotted(call.func.value) not in ("self", "super()"):
            pre.append(call.func.value)
        npre = len(pre)
        results = []

        def cont(vals, s):
            args = vals[npre:npre + len(argnodes)]
            kws = dict(zip([k.arg for k in call.keywords], vals[npre + len(argnodes):]))
            s.add(Event("call", call, target, self.frame, {"args": list(args), "kws": kws}))
            env, is_self, callee_concrete, facts, pdefs = self._callee_setup(call, target, callee, args, kws, s)
            inner = State(env=env, facts=facts, events=s.events, exc=None, depth=s.depth + 1, stack=s.stack + (callee,), defs=pdefs)
            inner.outer = (dict(s.env), dict(s.defs), None if is_self else dict(s.facts), None)

            def handler(v, gs):
                oe, od, of, _rv = gs.outer
                cs = State(env=dict(oe), facts=gs.facts if is_self else {**of, **_scratch(gs.facts)}, events=gs.events, exc=s.exc, depth=s.depth,
                           stack=s.stack, defs=dict(od))
                cs.outer = s.outer
                sf, sg, sb = self.frame, self._gen_stack, self._gen_bodies
                self.frame, self._gen_stack, self._gen_bodies = caller_frame, sg[:-1], sb[:-1]
                try:
                    self._bind(cs, stmt.target, v, stmt)
                    res = self.exec_block(stmt.body, cs)
                finally:
                    self.frame, self._gen_stack, self._gen_bodies = sf, sg, sb
                outs = []
                for k, val, cs2 in res:
                    ng = State(env=dict(gs.env), facts=cs2.facts if is_self else {**gs.facts, **_scratch(cs2.facts)}, events=cs2.events, exc=gs.exc, depth=gs.depth,
                               stack=gs.stack, defs=dict(gs.defs))
                    ng.outer = (cs2.env, cs2.defs, None if is_self else cs2.facts, val if k == "return" else None)
                    if k in ("next", "continue"):
                        outs.append(("val", Const(None), ng))
                    elif k == "break":
                        outs.append(("raise", "<GenBreak>", ng))
                    elif k == "return":
                        outs.append(("raise", "<GenReturn>", ng))
                    elif k == "raise":
                        outs.append(("raise", "<GenRaise>:" + str(val), ng))
                    else:
                        outs.append(("raise", "<GenOther>:" + str(k), ng))
                return outs

            saved_frame = self.frame
            self.frame = (callee, callee_concrete)
            self._gen_stack = self._gen_stack + [handler]
            self._gen_bodies = self._gen_bodies + [stmt.body]
            try:
                outs = self.exec_block(callee.node.body, inner)
            finally:
                self.frame = saved_frame
                self._gen_stack = self._gen_stack[:-1]
                self._gen_bodies = self._gen_bodies[:-1]
            res = []
            for k, v, gs in outs:
                oe, od, of, rv = gs.outer if gs.outer is not None else (s.env, s.defs, None if is_self else s.facts, None)
                back = State(env=dict(oe), facts=gs.facts if is_self else {**(of if of is not None else s.facts), **_scratch(gs.facts)}, events=gs.events, exc=s.exc,
                             depth=s.depth, stack=s.stack, defs=dict(od))
                back.outer = s.outer
                if k == "raise" and str(v) == "<GenBreak>":
                    res.append(("next", None, back))
                elif k == "raise" and str(v) == "<GenReturn>":
                    res.append(("return", rv if rv is not None else Const(None), back))
                elif k == "raise" and str(v).startswith("<GenRaise>:"):
                    res.append(("raise", str(v)[len("<GenRaise>:"):], back))
                elif k == "raise":
                    res.append(("raise", v, back))
                else:
                    res.extend(self.exec_block(stmt.orelse, back))
            return res

        for r in self._seq(pre + argnodes + kwnodes, st, lambda vals, s: [("gen", cont(vals, s), s)]):
            if r[0] == "raise":
                results.append(r)
            else:
                results.extend(r[1])
        return results

    def e_Yield(self, node, st):
        if not self._gen_stack:
            return self._generic_expr(node, st)
        handler = self._gen_stack[-1]
        out = []
        for r in (self.eval(node.value, st) if node.value is not None else [("val", Const(None), st)]):
            if r[0] == "raise":
                out.append(r)
                continue
            out.extend(handler(r[1], r[2]))
        return out

    def _callee_setup(self, node, target, callee, args, kws, s):
        """Parameter binding for walking a callee's body (shared by call inlining and generator loops)."""
        func, concrete = self.frame
        is_self = target.bound_cls is not None
        explicit_self = False
        if not is_self and callee.cls is not None and target.kind == "repo" and args is not None \
                and node.args and dotted(node.args[0]) == "self":
            is_self = True
            explicit_self = True
        params = list(callee.params)
        env: Dict[str, AVal] = {}
        avals = list(args)
        if callee.cls is not None and target.kind != "ctor":
            if explicit_self:
                avals = avals[1:]
            if params and params[0] == "cls" and any((dotted(dc) or "") == "classmethod" for dc in callee.node.decorator_list):
                # a class method: its first parameter is the class it was reached through
                env["cls"] = Ref(target.bound_cls or callee.cls)
            params = params[1:] if params and params[0] in ("self", "cls") else params
        elif target.kind == "ctor":
            params = params[1:] if params else params
        for p_, v in zip(params, avals):
            env[p_] = v
        for k, v in kws.items():
            if k in params:
                env[k] = v
        a = callee.node.args
        all_params = [x.arg for x in a.posonlyargs + a.args]
        for p_, d in zip(all_params[len(all_params) - len(a.defaults):], a.defaults):
            if p_ not in env and isinstance(d, ast.Constant):
                env[p_] = Const(d.value)
        for p_, d in zip([x.arg for x in a.kwonlyargs], a.kw_defaults):
            if p_ not in env and isinstance(d, ast.Constant):
                env[p_] = Const(d.value)
        if is_self:
            callee_concrete = target.bound_cls or concrete
            facts = s.facts
        else:
            callee_concrete = callee.cls
            facts = {k: v for k, v in s.facts.items() if not k.startswith("self.") and "self." not in k}
        pdefs = {}
        if node is not None and (is_self or callee.cls is None):
            try:
                from .facts import expand_ast as _xa

                argnodes = list(node.args)
                if explicit_self:
                    argnodes = argnodes[1:]
                callee_locals = _callee_locals(callee)
                pairs = list(zip(params, argnodes)) + [(k.arg, k.value) for k in node.keywords if k.arg in params]
                for p_, a_ in pairs:
                    if isinstance(a_, ast.Starred):
                        continue
                    ea = _xa(a_, self.frame[0], s.defs) if s.defs else a_
                    free = _names_of(ea) - {"self"}
                    if not (free & callee_locals) and (is_self or callee.cls is None or "self" not in _names_of(ea)):
                        pdefs[p_] = ea
            except Exception:
                pdefs = {}
        return env, is_self, callee_concrete, facts, pdefs

    def s_With(self, stmt, st):
        cur = [st]
        out = []
        for item in stmt.items:
            nxt = []
            for s in cur:
                for r in self.eval(item.context_expr, s):
                    if r[0] == "raise":
                        out.append(("raise", r[1], r[2]))
                        continue
                    s2 = r[2]
                    s2.add(Event("enter", item.context_expr, None, self.frame))
                    if item.optional_vars is not None:
                        held_ = r[1] if (self.exact_loops and r[1] is not None and r[1].kind == "const") else UNK
                        self._bind(s2, item.optional_vars, held_, stmt, defexpr=item.context_expr)
                    nxt.append(s2)
            cur = nxt
        sup = suppress_try(stmt)
        for s in cur:
            for k, v, s2 in self.exec_block(stmt.body, s):
                s2.add(Event("exit", stmt, None, self.frame))
                if sup is not None and k == "raise" and not str(v).startswith("<Gen") \
                        and any(exc_matches(str(v), n) for n in handler_names(sup.handlers[0])):
                    s2.add(Event("except", sup.handlers[0], str(v), self.frame))
                    out.append(("next", None, s2))
                    continue
                out.append((k, v, s2))
        return out

    s_AsyncWith = s_With

    def s_Try(self, stmt, st):
        out = []
        body_out = self.exec_block(stmt.body, st)
        after = []
        for k, v, s in body_out:
            if k == "raise" and str(v).startswith("<Gen"):
                after.append((k, v, s))
            elif k == "raise":
                handled = False
                for h in stmt.handlers:
                    if any(exc_matches(str(v), n) for n in handler_names(h)):
                        handled = True
                        s.exc = v
                        if h.name:
                            s.env[h.name] = TRUTHY
                            s.facts["__excname." + h.name] = Const(str(v))
                        s.add(Event("except", h, str(v), self.frame))
                        for k2, v2, s2 in self.exec_block(h.body, s):
                            s2.exc = None if k2 != "raise" else s2.exc
                            after.append((k2, v2, s2))
                        break
                if not handled:
                    after.append((k, v, s))
            elif k == "next":
                after.extend(self.exec_block(stmt.orelse, s))
            else:
                after.append((k, v, s))
        if not stmt.finalbody:
            return after
        for k, v, s in after:
            for k2, v2, s2 in self.exec_block(stmt.finalbody, s):
                if k2 == "next":
                    out.append((k, v, s2))
                else:
                    out.append((k2, v2, s2))
        return out

    s_TryStar = s_Try

    # ----------------------------------------------------------- assumptions
    def assume(self, st: State, expr, val: bool):
        if isinstance(expr, ast.Constant):
            return
        if isinstance(expr, ast.UnaryOp) and isinstance(expr.op, ast.Not):
            self.assume(st, expr.operand, not val)
            return
        if isinstance(expr, ast.BoolOp):
            if isinstance(expr.op, ast.And) and val:
                for e in expr.values:
                    self.assume(st, e, True)
            elif isinstance(expr.op, ast.Or) and not val:
                for e in expr.values:
                    self.assume(st, e, False)
            else:
                # `A or B or C` is true and all but one operand are known false (or the dual)
                want = isinstance(expr.op, ast.Or)
                open_ops = []
                def known(e):
                    if isinstance(e, ast.UnaryOp) and isinstance(e.op, ast.Not):
                        k = known(e.operand)
                        return None if k is None else (not k)
                    if isinstance(e, ast.BoolOp):
                        ks = [known(v) for v in e.values]
                        if isinstance(e.op, ast.And):
                            return False if any(k is False for k in ks) else (True if all(k is True for k in ks) else None)
                        return True if any(k is True for k in ks) else (False if all(k is False for k in ks) else None)
                    cur = self._lookup(e, st)
                    t = truth(cur) if cur is not None else None
                    if t is None and isinstance(e, ast.Constant):
                        t = bool(e.value)
                    return t

                for e in expr.values:
                    t = known(e)
                    if t is want:
                        open_ops = None
                        break
                    if t is None:
                        open_ops.append(e)
                if open_ops is not None and len(open_ops) == 1:
                    self.assume(st, open_ops[0], want)
            st.facts[norm(expr)] = TRUTHY if val else FALSY
            return
        if isinstance(expr, ast.NamedExpr):
            self.assume(st, expr.target, val)
            return
        if isinstance(expr, ast.Compare) and len(expr.ops) == 1:
            op, left, right = expr.ops[0], expr.left, expr.comparators[0]
            lc, rc = _const_of(left), _const_of(right)
            eq = None
            if isinstance(op, (ast.Eq, ast.Is)):
                eq = val
            elif isinstance(op, (ast.NotEq, ast.IsNot)):
                eq = not val
            if eq is True:
                if rc is not None and lc is None:
                    self._setfact(st, left, Const(rc[0]))
                elif lc is not None and rc is None:
                    self._setfact(st, right, Const(lc[0]))
            elif eq is False:
                # x is not None  ->  nothing about truthiness; x != c -> nothing
                pass
        self._setfact(st, expr, TRUTHY if val else FALSY)
        # leaf decision: record it (with the constant bindings of the names it mentions)
        binds = {}
        for n in ast.walk(expr):
            if isinstance(n, ast.Name) and n.id in st.env and st.env[n.id].kind in ("const", "sym"):
                binds[n.id] = st.env[n.id]
        ev = Event("test", expr, "assumed", self.frame, val)
        ev.binds = binds
        ev.defs = dict(st.defs)
        st.add(ev)

    def _setfact(self, st: State, expr, val: AVal):
        if isinstance(expr, ast.Name):
            cur = st.env.get(expr.id)
            if cur is None or cur.kind != "const":
                st.env[expr.id] = val
        else:
            cur = st.facts.get(norm(expr))
            if cur is None or cur.kind != "const":
                st.facts[norm(expr)] = val

    # ----------------------------------------------------------- expressions
    def _lookup(self, node, st: State) -> Optional[AVal]:
        if isinstance(node, ast.Name):
            if node.id in st.env:
                return st.env[node.id]
            key = node.id
            if key in st.facts:
                return st.facts[key]
            return None
        key = norm(node)
        return st.facts.get(key)

    def eval(self, node, st: State):
        """-> list of ('val', AVal, State) | ('raise', excname, State)"""
        self._tick()
        if node is None:
            return [("val", Const(None), st)]
        if self.symbols and isinstance(node, (ast.Attribute, ast.Name, ast.Call)):
            sym = self.symbols.get(norm(node))
            if sym is not None:
                return [("val", AVal("sym", sym), st)]
        if not isinstance(node, (ast.Constant, ast.Name)):
            pre = st.facts.get(norm(node))
            if pre is not None and isinstance(node, (ast.Call, ast.Attribute, ast.Subscript, ast.Compare, ast.BoolOp, ast.UnaryOp)):
                return [("val", pre, st)]
        m = getattr(self, "e_" + type(node).__name__, None)
        if m is None:
            res = self._generic_expr(node, st)
        else:
            res = m(node, st)
        if self.expr_value is not None:
            fixed = []
            for r in res:
                if r[0] == "val":
                    v = self.expr_value(node, r[2])
                    if v is not None:
                        r = ("val", v, r[2])
                fixed.append(r)
            res = fixed
        return res

    def _generic_expr(self, node, st):
        # evaluate children for their events, result unknown
        return self._seq([c for c in ast.iter_child_nodes(node) if isinstance(c, ast.expr)], st,
                         lambda vals, s: [("val", UNK, s)])

    def _seq(self, nodes, st, cont):
        """Evaluate nodes left to right, then cont(list_of_avals, state)."""
        results = [([], st)]
        out = []
        for n in nodes:
            nxt = []
            for vals, s in results:
                for r in self.eval(n, s):
                    if r[0] == "raise":
                        out.append(r)
                    else:
                        nxt.append((vals + [r[1]], r[2]))
            results = nxt
        for vals, s in results:
            out.extend(cont(vals, s))
        return out

    def e_Constant(self, node, st):
        return [("val", Const(node.value), st)]

    def e_Name(self, node, st):
        if node.id in self.sticky and node.id in self.assumptions:
            return [("val", self.assumptions[node.id], st)]
        if node.id in st.env:
            return [("val", st.env[node.id], st)]
        if node.id in st.facts:
            return [("val", st.facts[node.id], st)]
        if node.id in ("True", "False", "None"):
            return [("val", Const({"True": True, "False": False, "None": None}[node.id]), st)]
        func = self.frame[0]
        if func is not None and (node.id in func.module.classes or node.id in func.module.functions
                                 or node.id in func.module.imports):
            res = self.prog.resolve_dotted(func.module, node.id)
            if res and res[0] in ("class", "func"):
                return [("val", Ref(res[1]), st)]
        if node.id in _BUILTIN_TYPES and (func is None or (node.id not in func.module.globals and node.id not in func.module.imports)):
            return [("val", Const(_BUILTIN_TYPES[node.id]), st)]
        # module-level constant?
        if func is not None and node.id in func.module.globals:
            vals = func.module.globals[node.id]
            if len(vals) == 1 and not _is_global_written(self.prog, func.module, node.id):
                lv = _literal(vals[0])
                if lv is not NOCONST:
                    return [("val", Const(lv), st)]
        return [("val", UNK, st)]

    def e_Attribute(self, node, st):
        d = dotted(node)
        if d and d.startswith("self.") and d.count(".") == 1 and self.frame[1] is not None and isinstance(node.ctx, ast.Load) \
                and norm(node) not in st.facts:
            # a property of the class: reading it runs the getter
            m = self.prog.resolve_method(self.frame[1], node.attr)
            if m is not None and any((dotted(dc) or "").split(".")[-1] in ("property", "cached_property") for dc in m.node.decorator_list) \
                    and st.depth < self.max_depth and m not in st.stack:
                tgt = Target("repo", d, funcs=[m], bound_cls=self.frame[1])
                if self.inline(m, tgt, st.depth):
                    call = getattr(node, "_pgv_propcall", None)
                    if call is None:
                        call = ast.Call(func=node, args=[], keywords=[])
                        ast.copy_location(call, node)
                        try:
                            node._pgv_propcall = call
                        except Exception:
                            pass
                    return self._inline(call, tgt, m, [], {}, st)
        if d and d.startswith("self.") and d.count(".") == 1 and self.frame[1] is not None:
            a = self.prog.class_attr(self.frame[1], node.attr)
            if a is not None and not _attr_assigned_anywhere(self.prog, self.frame[1], node.attr):
                lv = _literal(a)
                if lv is NOCONST:
                    lv = _function_table(self.prog, a, self.frame[1])
                if lv is not NOCONST:
                    return [("val", Const(lv), st)]
        if d and self.frame[0] is not None:
            res = self.prog.resolve_dotted(self.frame[0].module, d) if not d.startswith("self") else None
            if res and res[0] in ("class", "func"):
                return [("val", Ref(res[1]), st)]
            if res and res[0] == "module":
                return [("val", TRUTHY, st)]
            if res and res[0] == "global" and len(res) >= 3:
                # a constant of another module of the repository (module.NAME), never rebound
                vals_ = res[1].globals.get(res[2]) or []
                if len(vals_) == 1 and not _is_global_written(self.prog, res[1], res[2]):
                    lv = _literal(vals_[0])
                    if lv is not NOCONST:
                        return [("val", Const(lv), st)]
            if res and res[0] == "ext":
                known = EXT_CONSTS.get(res[1])
                if known is not None:
                    return [("val", Const(known), st)]
                if res[1].startswith("re.") and res[1].count(".") == 1 and res[1][3:].isupper():
                    import re as _re

                    fv_ = getattr(_re, res[1][3:], None)
                    if isinstance(fv_, int):
                        return [("val", Const(fv_), st)]
                if res[1].startswith("stat.") and res[1].count(".") == 1:
                    # the integer constants of the stat module (ST_MODE, S_IFREG ...) are fixed by POSIX
                    import stat as _stat

                    sv = getattr(_stat, res[1][5:], None)
                    if type(sv) is int:
                        return [("val", Const(sv), st)]
                return [("val", UNK, st)]
        def cont_attr(vals, s):
            b = vals[0]
            # fields of a constant named tuple (urlparse() results)
            if b.kind == "const" and isinstance(b.value, tuple) and node.attr in getattr(type(b.value), "_fields", ()):
                return [("val", Const(getattr(b.value, node.attr)), s)]
            if b.kind == "record" and b.value[0] and node.attr in b.value[0]:
                return [("val", b.value[1][b.value[0].index(node.attr)], s)]
            if b.kind == "const" and type(b.value).__name__ == "stat_result" and node.attr.startswith("st_") and hasattr(b.value, node.attr):
                return [("val", Const(getattr(b.value, node.attr)), s)]
            # a model object of a rule that answers its own attributes
            if b.kind == "const" and hasattr(type(b.value), "pgv_attr") and isinstance(node.ctx, ast.Load):
                got = b.value.pgv_attr(node.attr)
                if got is not None:
                    return [("val", got if isinstance(got, AVal) else Const(got), s)]
            return [("val", UNK, s)]
        return self._seq([node.value], st, cont_attr)

    def e_Subscript(self, node, st):
        def cont(vals, s):
            base, idx = vals
            if base.kind == "record" and idx.kind == "const" and isinstance(idx.value, int) and -len(base.value[1]) <= idx.value < len(base.value[1]):
                return [("val", base.value[1][idx.value], s)]
            if base.kind == "const" and idx.kind == "const":
                try:
                    return [("val", Const(base.value[idx.value]), s)]
                except (KeyError, IndexError) as exc:
                    # the same lookup fails the same way at run time
                    s.add(Event("raise", node, type(exc).__name__, self.frame, "implicit"))
                    return [("raise", type(exc).__name__, s)]
                except TypeError:
                    if type(base.value) in _PLAIN_TYPES and type(idx.value) in _PLAIN_TYPES:
                        s.add(Event("raise", node, "TypeError", self.frame, "implicit"))
                        return [("raise", "TypeError", s)]
                    return [("val", UNK, s)]
                except Exception:
                    return [("val", UNK, s)]
            return [("val", UNK, s)]
        if isinstance(node.slice, ast.Slice):
            sl = node.slice
            present = [p for p in (sl.lower, sl.upper, sl.step) if p is not None]

            def cont_slice(vals, s):
                base = vals[0]
                rest = list(vals[1:])
                if base.kind == "const" and all(v.kind == "const" for v in rest):
                    it = iter(rest)
                    lo = next(it).value if sl.lower is not None else None
                    hi = next(it).value if sl.upper is not None else None
                    stp = next(it).value if sl.step is not None else None
                    try:
                        return [("val", Const(base.value[lo:hi:stp]), s)]
                    except Exception:
                        return [("val", UNK, s)]
                return [("val", UNK, s)]
            return self._seq([node.value] + present, st, cont_slice)
        return self._seq([node.value, node.slice], st, cont)

    def e_UnaryOp(self, node, st):
        def cont(vals, s):
            v = vals[0]
            if isinstance(node.op, ast.Not):
                t = truth(v)
                if t is None:
                    return [("val", UNK, s)]
                return [("val", Const(not t), s)]
            if v.kind == "const":
                try:
                    if isinstance(node.op, ast.USub):
                        return [("val", Const(-v.value), s)]
                    if isinstance(node.op, ast.UAdd):
                        return [("val", Const(+v.value), s)]
                except Exception:
                    pass
            return [("val", UNK, s)]
        return self._seq([node.operand], st, cont)

    def e_BoolOp(self, node, st):
        is_and = isinstance(node.op, ast.And)
        out = []
        # (state) list progressing through operands
        cur = [st]
        last_index = len(node.values) - 1
        for i, operand in enumerate(node.values):
            nxt = []
            for s in cur:
                for r in self.eval(operand, s):
                    if r[0] == "raise":
                        out.append(r)
                        continue
                    _, v, s2 = r
                    t = truth(v)
                    if i == last_index:
                        out.append(("val", v, s2))
                        continue
                    if t is None:
                        s_t, s_f = s2, s2.copy()
                        self.assume(s_t, operand, True)
                        self.assume(s_f, operand, False)
                        if is_and:
                            out.append(("val", FALSY if v.kind != "const" else v, s_f))
                            nxt.append(s_t)
                        else:
                            out.append(("val", TRUTHY, s_t))
                            nxt.append(s_f)
                    elif t == (not is_and):
                        # short circuit
                        out.append(("val", v, s2))
                    else:
                        nxt.append(s2)
            cur = nxt
        return out

    def e_IfExp(self, node, st):
        out = []
        for r in self.eval(node.test, st):
            if r[0] == "raise":
                out.append(r)
                continue
            t = truth(r[1])
            if t is True:
                out.extend(self.eval(node.body, r[2]))
            elif t is False:
                out.extend(self.eval(node.orelse, r[2]))
            else:
                s1, s2 = r[2], r[2].copy()
                self.assume(s1, node.test, True)
                self.assume(s2, node.test, False)
                out.extend(self.eval(node.body, s1))
                out.extend(self.eval(node.orelse, s2))
        return out

    def e_Compare(self, node, st):
        def cont(vals, s):
            cur = vals[0]
            result = True
            for op, nxt in zip(node.ops, vals[1:]):
                if self.exact_loops and isinstance(op, (ast.In, ast.NotIn)) and cur.kind == "const" and nxt.kind == "const" \
                        and isinstance(nxt.value, (str, bytes)) and type(cur.value) in (type(None), int, float, bool, tuple, list, dict) \
                        and not (isinstance(nxt.value, bytes) and isinstance(cur.value, int) and not isinstance(cur.value, bool)):
                    # `None in "i7"`: 'in <string>' requires string as left operand
                    s.add(Event("raise", node, "TypeError", self.frame, "implicit"))
                    return [("raise", "TypeError", s)]
                r = _compare(op, cur, nxt)
                if r is None:
                    return [("val", UNK, s)]
                if not r:
                    result = False
                    break
                cur = nxt
            return [("val", Const(result), s)]
        return self._seq([node.left] + list(node.comparators), st, cont)

    def e_BinOp(self, node, st):
        def cont(vals, s):
            a, b = vals
            if a.kind == "const" and b.kind == "const":
                if self.exact_loops and isinstance(node.op, ast.Mod) and isinstance(a.value, (str, bytes)) \
                        and (_printable(b.value) or (isinstance(b.value, tuple) and all(_printable(x) for x in b.value))):
                    # "format" % values fails the same way at run time when the format does not fit the values
                    try:
                        a.value % b.value
                    except (TypeError, ValueError) as exc:
                        s.add(Event("raise", node, type(exc).__name__, self.frame, "implicit"))
                        return [("raise", type(exc).__name__, s)]
                    except Exception:
                        pass
                return [("val", _binop(node.op, a.value, b.value), s)]
            return [("val", UNK, s)]
        return self._seq([node.left, node.right], st, cont)

    def _literal(self, node, st, ctor):
        elts = []
        for e in node.elts:
            elts.append(e.value if isinstance(e, ast.Starred) else e)
        def cont(vals, s):
            if all(v.kind == "const" for v in vals) and not any(isinstance(e, ast.Starred) for e in node.elts):
                return [("val", Const(ctor(v.value for v in vals)), s)]
            if all(v.kind == "const" for v in vals) and all(isinstance(v.value, (list, tuple, set, frozenset, dict, str))
                                                            for e, v in zip(node.elts, vals) if isinstance(e, ast.Starred)):
                items_ = []
                for e, v in zip(node.elts, vals):
                    if isinstance(e, ast.Starred):
                        items_.extend(list(v.value))
                    else:
                        items_.append(v.value)
                try:
                    return [("val", Const(ctor(items_)), s)]
                except TypeError:
                    pass
            if vals and ctor is tuple and not any(isinstance(e, ast.Starred) for e in node.elts):
                # a tuple of functions / classes of the repository is a constant table
                if all(v.kind in ("const", "ref") for v in vals):
                    return [("val", Const(tuple(v.value for v in vals)), s)]
                return [("val", Record(None, vals), s)]
            if vals and not any(isinstance(e, ast.Starred) for e in node.elts):
                return [("val", TRUTHY, s)]
            if not vals:
                return [("val", Const(ctor()), s)]
            return [("val", UNK, s)]
        return self._seq(elts, st, cont)

    def e_List(self, node, st):
        return self._literal(node, st, list)

    def e_Tuple(self, node, st):
        return self._literal(node, st, tuple)

    def e_Set(self, node, st):
        return self._seq(list(node.elts), st, lambda vals, s: [("val", TRUTHY if vals else FALSY, s)])

    def e_Dict(self, node, st):
        parts = [k for k in node.keys if k is not None] + list(node.values)

        def cont(vals, s):
            if not node.keys:
                return [("val", Const({}), s)]
            if all(k is not None for k in node.keys) and all(v.kind == "const" for v in vals):
                n = len(node.keys)
                try:
                    return [("val", Const({vals[i].value: vals[n + i].value for i in range(n)}), s)]
                except TypeError:
                    pass
            return [("val", TRUTHY, s)]
        return self._seq(parts, st, cont)

    def e_JoinedStr(self, node, st):
        parts = [v.value for v in node.values if isinstance(v, ast.FormattedValue)]
        plain = all(v.conversion in (-1, 115, 114) and v.format_spec is None for v in node.values if isinstance(v, ast.FormattedValue))

        def cont(vals, s):
            if plain and all(v.kind == "const" and (isinstance(v.value, (str, int)) or hasattr(type(v.value), "pgv_attr"))
                             and not isinstance(v.value, bool) for v in vals):
                it = iter(vals)
                out = ""
                for v in node.values:
                    if isinstance(v, ast.Constant):
                        out += str(v.value)
                    else:
                        out += repr(next(it).value) if v.conversion == 114 else str(next(it).value)
                return [("val", Const(out), s)]
            return [("val", UNK, s)]
        return self._seq(parts, st, cont)

    def e_NamedExpr(self, node, st):
        def cont(vals, s):
            self._bind(s, node.target, vals[0], node)
            return [("val", vals[0], s)]
        return self._seq([node.value], st, cont)

    def e_Lambda(self, node, st):
        return [("val", TRUTHY, st)]

    def _comp(self, node, st):
        # comprehension: evaluate the iterables, then the element once with unknown targets
        s = st
        parts = []
        for g in node.generators:
            parts.append(g.iter)
        def cont(vals, s):
            s2 = s
            if self.exact_loops and len(node.generators) == 1 and not isinstance(node, ast.DictComp) \
                    and vals[0].kind == "const" and isinstance(vals[0].value, (list, tuple, str, bytes, dict, set, frozenset)) \
                    and len(vals[0].value) <= 64 and not node.generators[0].is_async:
                # evaluator mode: the comprehension over a known sequence is computed element by element
                g = node.generators[0]
                items = list(vals[0].value)
                outs = [([], s2)]
                raised = []
                ok = True
                for it in items:
                    nxt = []
                    for acc, cur in outs:
                        cur = cur.copy()
                        self._bind(cur, g.target, Const(it), node)
                        keep = [(True, cur)]
                        for cond in g.ifs:
                            k2 = []
                            for flag, c in keep:
                                if not flag:
                                    k2.append((flag, c))
                                    continue
                                for kind, v, c2 in self.eval(cond, c):
                                    if kind != "val":
                                        raised.append((kind, v, c2))
                                        continue
                                    t = truth(v)
                                    if t is None:
                                        ok = False
                                    k2.append((bool(t), c2))
                            keep = k2
                        for flag, c in keep:
                            if not flag:
                                nxt.append((acc, c))
                                continue
                            for kind, v, c2 in self.eval(node.elt, c):
                                if kind != "val":
                                    raised.append((kind, v, c2))
                                    continue
                                if v.kind != "const":
                                    ok = False
                                    continue
                                nxt.append((acc + [v.value], c2))
                    outs = nxt
                    if not ok or len(outs) > 64:
                        ok = False
                        break
                if ok and (outs or raised):
                    res = list(raised)
                    for acc, c in outs:
                        try:
                            val = Const(set(acc)) if isinstance(node, ast.SetComp) else Const(list(acc))
                        except TypeError:
                            val = UNK
                        res.append(("val", val, c))
                    return res
            for g in node.generators:
                self._bind(s2, g.target, UNK, node)
            inner = []
            for g in node.generators:
                inner.extend(g.ifs)
            if isinstance(node, ast.DictComp):
                inner.extend([node.key, node.value])
            else:
                inner.append(node.elt)
            return self._seq(inner, s2, lambda v2, s3: [("val", UNK, s3)])
        return self._seq(parts, s, cont)

    e_ListComp = e_SetComp = e_GeneratorExp = e_DictComp = _comp

    def e_Starred(self, node, st):
        return self._seq([node.value], st, lambda vals, s: [("val", UNK, s)])

    # ------------------------------------------------------------------ calls
    def e_Call(self, node: ast.Call, st):
        func, concrete = self.frame
        if isinstance(node.func, ast.Name):
            held_p = st.env.get(node.func.id)
            if held_p is not None and held_p.kind == "partial" and not any(isinstance(a, ast.Starred) for a in node.args):
                # a local holding functools.partial(f, ...): calling it calls f with the stored arguments first
                synth, ptarget, pargs, pkws = held_p.value

                def contp(vals, s):
                    args_ = list(pargs) + vals[:len(node.args)]
                    kws_ = dict(pkws)
                    kws_.update(zip([k.arg for k in node.keywords], vals[len(node.args):]))
                    return self._do_call(synth, ptarget, args_, kws_, s)
                return self._seq(list(node.args) + [k.value for k in node.keywords], st, contp)
        target = self.resolver.resolve(node, func, concrete)
        if target.kind == "unknown" and isinstance(node.func, ast.Name):
            held = st.env.get(node.func.id)
            if held is not None and held.kind == "const" and isinstance(held.value, FuncInfo):
                held = Ref(held.value)
            if held is not None and held.kind == "bound" and concrete is not None:
                # a local holding a bound method of self (evaluator = getattr(self, name); evaluator(...))
                target = Target("repo", "self." + held.value.name, funcs=[held.value], bound_cls=concrete)
            if held is not None and held.kind == "ref":
                obj = held.value
                if isinstance(obj, ClassInfo):
                    init = self.prog.resolve_method(obj, "__init__")
                    target = Target("ctor", node.func.id, funcs=[init] if init else [], cls=obj)
                elif isinstance(obj, FuncInfo):
                    target = Target("repo", node.func.id, funcs=[obj])
        pre = []
        if isinstance(node.func, ast.Attribute):
            rd = dotted(node.func.value)
            if rd is None or isinstance(node.func.value, ast.Call):
                pre.append(node.func.value)
            elif rd not in ("self", "super()"):
                pre.append(node.func.value)
        elif not isinstance(node.func, ast.Name):
            pre.append(node.func)
        argnodes = [a.value if isinstance(a, ast.Starred) else a for a in node.args]
        kwnodes = [k.value for k in node.keywords]
        npre = len(pre)

        def cont(vals, s):
            recv = vals[:npre]
            args = vals[npre:npre + len(argnodes)]
            kws = dict(zip([k.arg for k in node.keywords], vals[npre + len(argnodes):]))
            # pure string methods on constant receivers fold to constants
            if isinstance(node.func, ast.Attribute) and node.func.attr in ("encode", "decode") and len(recv) == 1 \
                    and recv[0].kind == "const" and isinstance(recv[0].value, (str, bytes)) \
                    and all(a.kind == "const" for a in args) and all(v.kind == "const" for v in kws.values()) \
                    and set(kws) <= {"encoding", "errors"}:
                try:
                    return [("val", Const(getattr(recv[0].value, node.func.attr)(*[a.value for a in args], **{k: v.value for k, v in kws.items()})), s)]
                except (UnicodeError, LookupError) as exc:
                    s.add(Event("raise", node, type(exc).__name__, self.frame, "implicit"))
                    return [("raise", type(exc).__name__, s)]
                except Exception:
                    pass
            if isinstance(node.func, ast.Attribute) and node.func.attr == "format" and len(recv) == 1 and recv[0].kind == "const" \
                    and isinstance(recv[0].value, str) and all(a.kind == "const" for a in args) and all(v.kind == "const" for v in kws.values()) \
                    and all(_printable(a.value) for a in list(args) + list(kws.values())):
                try:
                    return [("val", Const(recv[0].value.format(*[a.value for a in args], **{k: v.value for k, v in kws.items()})), s)]
                except Exception:
                    pass
            if self.exact_loops and isinstance(node.func, ast.Attribute) and len(recv) == 1 and recv[0].kind == "const" \
                    and recv[0].value is None and not hasattr(None, node.func.attr):
                # None.splitlines(): no such method
                s.add(Event("raise", node, "AttributeError", self.frame, "implicit"))
                return [("raise", "AttributeError", s)]
            if isinstance(node.func, ast.Attribute) and node.func.attr == "join" and len(recv) == 1 and recv[0].kind == "const" \
                    and isinstance(recv[0].value, (str, bytes)) and len(args) == 1 and args[0].kind == "const" and not kws \
                    and isinstance(args[0].value, (list, tuple)) and all(isinstance(x, type(recv[0].value)) for x in args[0].value):
                return [("val", Const(recv[0].value.join(args[0].value)), s)]
            if isinstance(node.func, ast.Attribute) and node.func.attr in PURE_STR_METHODS and len(recv) == 1 \
                    and recv[0].kind == "const" and isinstance(recv[0].value, (str, bytes)) \
                    and all(a.kind == "const" for a in args) and not kws:
                try:
                    return [("val", Const(getattr(recv[0].value, node.func.attr)(*[a.value for a in args])), s)]
                except (ValueError, IndexError) as exc:
                    # a pure method that fails on these constants fails the same way at run time (str.index, ...)
                    s.add(Event("raise", node, type(exc).__name__, self.frame, "implicit"))
                    return [("raise", type(exc).__name__, s)]
                except Exception:
                    pass
            if isinstance(node.func, ast.Attribute) and node.func.attr in ("get", "keys", "values", "items") and len(recv) == 1 \
                    and recv[0].kind == "const" and isinstance(recv[0].value, dict) and all(a.kind == "const" for a in args) and not kws:
                try:
                    r_ = getattr(recv[0].value, node.func.attr)(*[a.value for a in args])
                    return [("val", Const(list(r_) if node.func.attr != "get" else r_), s)]
                except Exception:
                    pass
            if isinstance(node.func, ast.Attribute) and node.func.attr in ("isdisjoint", "issubset", "issuperset", "union", "intersection", "difference",
                                                                               "symmetric_difference") and len(recv) == 1 \
                    and recv[0].kind == "const" and isinstance(recv[0].value, (set, frozenset, tuple)) and args and all(a.kind == "const" for a in args) and not kws:
                # (module-level set constants are kept as tuples of their elements)
                try:
                    return [("val", Const(getattr(frozenset(recv[0].value), node.func.attr)(*[a.value for a in args])), s)]
                except TypeError:
                    pass
            sub_pat = sub_lam = sub_text = None
            if self.exact_loops and isinstance(node.func, ast.Attribute) and node.func.attr == "sub" and len(recv) == 1 and recv[0].kind == "const" \
                    and type(recv[0].value).__name__ == "Pattern" and len(node.args) == 2 and isinstance(node.args[0], ast.Lambda) and not kws \
                    and len(node.args[0].args.args) == 1 and args[1].kind == "const" and isinstance(args[1].value, str):
                sub_pat, sub_lam, sub_text = recv[0].value, node.args[0], args[1].value
            elif self.exact_loops and dotted(node.func) == "re.sub" and 3 <= len(node.args) <= 5 and isinstance(node.args[1], ast.Lambda) \
                    and len(node.args[1].args.args) == 1 and args[0].kind == "const" and isinstance(args[0].value, str) and args[2].kind == "const" \
                    and isinstance(args[2].value, str) and all(a.kind == "const" and isinstance(a.value, int) for a in args[3:]) \
                    and all(k == "flags" and v.kind == "const" for k, v in kws.items()) and (len(args) < 4 or args[3].value == 0):
                import re as _re2

                try:
                    sub_pat = _re2.compile(args[0].value, (args[4].value if len(args) > 4 else 0) | (kws["flags"].value if "flags" in kws else 0))
                    sub_lam, sub_text = node.args[1], args[2].value
                except Exception:
                    sub_pat = None
            if sub_pat is not None:
                # pattern.sub(lambda m: ..., text) on a known text: the replacement function is evaluated for every match in turn
                lam = sub_lam
                par = lam.args.args[0].arg
                text = sub_text
                matches = list(sub_pat.finditer(text))
                if len(matches) <= 32:
                    states = [("", 0, s)]
                    outs_ = []
                    for m_ in matches:
                        nxt = []
                        for acc, pos, cur in states:
                            saved = cur.env.get(par)
                            cur.env[par] = Const(m_)
                            for r in self.eval(lam.body, cur):
                                if r[0] == "raise":
                                    outs_.append(r)
                                    continue
                                st2 = r[2]
                                if saved is None:
                                    st2.env.pop(par, None)
                                else:
                                    st2.env[par] = saved
                                if r[1].kind == "const" and isinstance(r[1].value, str):
                                    nxt.append((acc + text[pos:m_.start()] + r[1].value, m_.end(), st2))
                                else:
                                    nxt.append((None, m_.end(), st2))
                        states = nxt
                    for acc, pos, cur in states:
                        outs_.append(("val", Const(acc + text[pos:]) if acc is not None else UNK, cur))
                    return outs_
            if isinstance(node.func, ast.Attribute) and node.func.attr in ("search", "match", "fullmatch", "sub", "split", "findall") and len(recv) == 1 \
                    and recv[0].kind == "const" and type(recv[0].value).__name__ == "Pattern" and args and all(a.kind == "const" for a in args) and not kws:
                try:
                    return [("val", Const(getattr(recv[0].value, node.func.attr)(*[a.value for a in args])), s)]
                except Exception:
                    pass
            if isinstance(node.func, ast.Attribute) and node.func.attr in ("group", "groups", "start", "end", "span", "groupdict") and len(recv) == 1 \
                    and recv[0].kind == "const" and type(recv[0].value).__name__ == "Match" and all(a.kind == "const" for a in args) and not kws:
                try:
                    return [("val", Const(getattr(recv[0].value, node.func.attr)(*[a.value for a in args])), s)]
                except (IndexError, ValueError) as exc:
                    s.add(Event("raise", node, type(exc).__name__, self.frame, "implicit"))
                    return [("raise", type(exc).__name__, s)]
            if self.exact_loops and isinstance(node.func, ast.Attribute) and node.func.attr in (_LIST_MUTATORS | _SET_MUTATORS | _DICT_MUTATORS) and not kws \
                    and not all(a.kind == "const" for a in args):
                holder_ = self._lookup(node.func.value, s)
                if holder_ is not None and holder_.kind == "const" and isinstance(holder_.value, (list, set, dict)) \
                        and node.func.attr in {list: _LIST_MUTATORS, set: _SET_MUTATORS, dict: _DICT_MUTATORS}[type(holder_.value)]:
                    # the container changes by a value that is not known: what was known about it is forgotten
                    if isinstance(node.func.value, ast.Name):
                        s.env[node.func.value.id] = TRUTHY if node.func.attr in ("append", "add", "insert") else UNK
                    else:
                        s.facts[norm(node.func.value)] = TRUTHY if node.func.attr in ("append", "add", "insert") else UNK
            if self.exact_loops and isinstance(node.func, ast.Attribute) and node.func.attr in (_LIST_MUTATORS | _SET_MUTATORS | _DICT_MUTATORS) and not kws \
                    and all(a.kind == "const" for a in args):
                holder_ = self._lookup(node.func.value, s)
                if holder_ is not None and holder_.kind == "const" and isinstance(holder_.value, (list, set, dict)) \
                        and node.func.attr in {list: _LIST_MUTATORS, set: _SET_MUTATORS, dict: _DICT_MUTATORS}[type(holder_.value)]:
                    import copy as _copy

                    new_ = _copy.copy(holder_.value)
                    try:
                        r_ = getattr(new_, node.func.attr)(*[a.value for a in args])
                    except (ValueError, IndexError, KeyError) as exc:
                        s.add(Event("raise", node, type(exc).__name__, self.frame, "implicit"))
                        return [("raise", type(exc).__name__, s)]
                    except Exception:
                        r_ = NOCONST
                    if r_ is not NOCONST:
                        ev_ = Event("call", node, target, self.frame, {"args": args, "kws": kws})
                        ev_.defs = dict(s.defs) if s.defs else None
                        s.add(ev_)
                        if isinstance(node.func.value, ast.Name):
                            s.env[node.func.value.id] = Const(new_)
                        else:
                            s.facts[norm(node.func.value)] = Const(new_)
                        return [("val", Const(r_), s)]
            self.cur_recv = recv[0] if npre == 1 and isinstance(node.func, ast.Attribute) else (
                s.env.get("self") if isinstance(node.func, ast.Attribute) and dotted(node.func.value) == "self" else None)
            tgt = target
            if tgt.kind == "unknown" and npre == 1 and not isinstance(node.func, (ast.Name, ast.Attribute)) \
                    and recv[0].kind in ("const", "ref") and isinstance(recv[0].value, FuncInfo):
                tgt = Target("repo", norm(node.func), funcs=[recv[0].value])
            if tgt.kind in ("unknown", "ext") and npre == 1 and not isinstance(node.func, (ast.Name, ast.Attribute)) and recv[0].kind == "bound" \
                    and self.frame[1] is not None:
                tgt = Target("repo", "self." + recv[0].value.name, funcs=[recv[0].value], bound_cls=self.frame[1])  # getattr(self, name)(...)
            if tgt.kind == "unknown" and isinstance(node.func, ast.Name) and npre == 0:
                held = s.env.get(node.func.id)
                if held is not None and held.kind == "ref" and isinstance(held.value, ClassInfo):
                    # a local (the cls of a class method) holding a class of the repository
                    tgt = Target("ctor", held.value.qualname, funcs=[m_ for m_ in [self.prog.resolve_method(held.value, "__init__")] if m_ is not None],
                                 cls=held.value)
            # a constant named tuple with some fields replaced
            if isinstance(node.func, ast.Attribute) and node.func.attr == "_replace" and npre == 1 and recv[0].kind == "const" \
                    and isinstance(recv[0].value, tuple) and hasattr(type(recv[0].value), "_fields") and not args \
                    and all(v.kind == "const" for v in kws.values()):
                try:
                    return [("val", Const(recv[0].value._replace(**{k: v.value for k, v in kws.items()})), s)]
                except (ValueError, TypeError):
                    pass
            # a NamedTuple class of the repository called on constants gives that tuple
            if tgt.kind == "ctor" and tgt.cls is not None and all(a.kind == "const" for a in args) and all(v.kind == "const" for v in kws.values()):
                nt = _namedtuple_type(tgt.cls)
                if nt is not None:
                    try:
                        return [("val", Const(nt(*[a.value for a in args], **{k: v.value for k, v in kws.items()})), s)]
                    except TypeError:
                        pass
            if tgt.kind == "ctor" and tgt.cls is not None and not any(isinstance(a_, ast.Starred) for a_ in node.args):
                nt = _namedtuple_type(tgt.cls)
                if nt is not None and len(args) + len(kws) == len(nt._fields) and all(k in nt._fields for k in kws):
                    vals_ = list(args) + [None] * (len(nt._fields) - len(args))
                    for k, v in kws.items():
                        vals_[nt._fields.index(k)] = v
                    if all(v is not None for v in vals_):
                        return [("val", Record(nt._fields, vals_), s)]
            if tgt.kind == "ext" and tgt.name == "functools.partial" and node.args and not any(isinstance(a_, ast.Starred) for a_ in node.args) \
                    and all(k.arg is not None for k in node.keywords) and self.exact_loops is not None:
                synth = getattr(node, "_pgv_partial", None)
                if synth is None:
                    synth = ast.Call(func=node.args[0], args=list(node.args[1:]), keywords=list(node.keywords))
                    ast.copy_location(synth, node)
                    try:
                        node._pgv_partial = synth
                    except Exception:
                        pass
                ptarget = self.resolver.resolve(synth, self.frame[0], self.frame[1])
                return [("val", AVal("partial", (synth, ptarget, tuple(args[1:]), tuple(kws.items()))), s)]
            return self._do_call(node, tgt, args, kws, s)

        return self._seq(pre + argnodes + kwnodes, st, cont)

    def _do_call(self, node, target: Target, args, kws, s: State):
        func, concrete = self.frame
        name = target.name if target.kind in ("ext",) else None
        # -- builtins with known semantics
        if name == "builtins.isinstance" and len(args) == 2 and args[0].kind == "const" and args[1].kind == "const" \
                and (isinstance(args[1].value, type) or (isinstance(args[1].value, tuple) and all(isinstance(t_, type) for t_ in args[1].value))) \
                and type(args[0].value) in _BUILTIN_TYPES.values() and norm(node) not in s.facts:
            return [("val", Const(isinstance(args[0].value, args[1].value)), s)]
        if name == "builtins.isinstance" and len(args) == 2 and args[0].kind == "const" and type(args[0].value) in _PLAIN_TYPES \
                and norm(node) not in s.facts and (
                    (args[1].kind == "ref" and isinstance(args[1].value, ClassInfo))
                    or (args[1].kind == "const" and isinstance(args[1].value, tuple) and args[1].value
                        and all(isinstance(t_, ClassInfo) for t_ in args[1].value))):
            # a str / int / None / list ... value is no instance of a class of the repository
            return [("val", Const(False), s)]
        if name in ("builtins.hasattr", "builtins.callable") and args and args[0].kind == "const" and type(args[0].value) in _PLAIN_TYPES \
                and norm(node) not in s.facts and all(a.kind == "const" for a in args):
            try:
                return [("val", Const(hasattr(args[0].value, args[1].value) if name.endswith("hasattr") else callable(args[0].value)), s)]
            except Exception:
                pass
        if name == "builtins.isinstance" or name == "builtins.hasattr" or name == "builtins.callable":
            fact = s.facts.get(norm(node))
            return [("val", fact if fact is not None else UNK, s)]
        if name == "builtins.type" and len(args) == 1 and args[0].kind == "const" and type(args[0].value) in _BUILTIN_TYPES.values():
            return [("val", Const(type(args[0].value)), s)]
        if name in ("builtins.tuple", "builtins.list", "builtins.set", "builtins.frozenset", "builtins.dict") and not args and not kws and self.exact_loops:
            return [("val", Const({"tuple": tuple, "list": list, "set": set, "frozenset": frozenset, "dict": dict}[name.split(".")[-1]]()), s)]
        if name in ("builtins.tuple", "builtins.list", "builtins.set", "builtins.frozenset", "builtins.sorted") and len(args) == 1 and not kws \
                and args[0].kind == "const" and isinstance(args[0].value, (tuple, list, set, frozenset, dict, str)):
            try:
                return [("val", Const({"tuple": tuple, "list": list, "set": set, "frozenset": frozenset, "sorted": sorted}[name.split(".")[-1]](args[0].value)), s)]
            except TypeError:
                pass
        if name in ("builtins.any", "builtins.all", "builtins.sum", "builtins.min", "builtins.max", "builtins.bool", "builtins.reversed", "builtins.enumerate",
                    "builtins.zip", "builtins.dict") and args and all(a.kind == "const" for a in args) and not kws \
                and isinstance(args[0].value, (tuple, list, set, frozenset, dict, str, bytes, int, bool, type(None))):
            try:
                import builtins as _b

                r_ = getattr(_b, name.split(".")[-1])(*[a.value for a in args])
                if name.split(".")[-1] in ("reversed", "enumerate", "zip"):
                    r_ = list(r_)
                return [("val", Const(r_), s)]
            except Exception:
                pass
        if name == "re.compile" and args and all(a.kind == "const" for a in args) and not kws and isinstance(args[0].value, (str, bytes)):
            import re as _re

            try:
                return [("val", Const(_re.compile(*[a.value for a in args])), s)]
            except Exception:
                pass
        if name == "builtins.getattr" and len(args) in (2, 3) and isinstance(node.args[0], ast.Name) and node.args[0].id == "self" \
                and concrete is not None and args[1].kind == "const" and isinstance(args[1].value, str):
            # getattr(self, "method"): the bound method of the concrete class
            m_ = self.prog.resolve_method(concrete, args[1].value)
            if m_ is not None:
                return [("val", AVal("bound", m_), s)]
            if self.exact_loops and len(args) == 2 and not self.prog.external_bases(concrete) \
                    and self.prog.resolve_method(concrete, "__getattr__") is None and self.prog.class_attr(concrete, args[1].value) is None \
                    and not _attr_assigned_anywhere(self.prog, concrete, args[1].value):
                # no method, class attribute or instance attribute of that name anywhere in the (all-repository) hierarchy
                s.add(Event("raise", node, "AttributeError", self.frame, "implicit"))
                return [("raise", "AttributeError", s)]
        if dotted(node.func) == "dict.fromkeys" and 1 <= len(args) <= 2 and not kws and all(a.kind == "const" for a in args) \
                and isinstance(args[0].value, (list, tuple, str, dict)):
            try:
                return [("val", Const(dict.fromkeys(*[a.value for a in args])), s)]
            except TypeError:
                pass
        if name == "builtins.range" and 1 <= len(args) <= 3 and not kws and all(a.kind == "const" and type(a.value) is int for a in args):
            try:
                r_ = range(*[a.value for a in args])
                if len(r_) <= 4096:
                    return [("val", Const(list(r_)), s)]
            except (ValueError, OverflowError):
                pass
        if name == "builtins.len" and args and args[0].kind == "const":
            try:
                return [("val", Const(len(args[0].value)), s)]
            except TypeError:
                if type(args[0].value) in _PLAIN_TYPES and len(args) == 1:
                    # len() of a number or None fails the same way at run time
                    s.add(Event("raise", node, "TypeError", self.frame, "implicit"))
                    return [("raise", "TypeError", s)]
            except Exception:
                pass
        if name is not None and name.startswith("stat.S_") and len(args) == 1 and not kws and args[0].kind == "const" and type(args[0].value) is int:
            import stat as _stat

            fn = getattr(_stat, name[5:], None)
            if callable(fn):
                try:
                    return [("val", Const(fn(args[0].value)), s)]
                except Exception:
                    pass
        if name in PURE_EXT_FUNCS and args and all(a.kind == "const" for a in args) and not kws:
            import posixpath

            try:
                fn = getattr(posixpath, name.split(".")[-1])
                return [("val", Const(fn(*[a.value for a in args])), s)]
            except Exception:
                pass
        if name in PURE_URL_FUNCS and args and all(a.kind == "const" for a in args) and all(v.kind == "const" for v in kws.values()):
            import urllib.parse as _up

            try:
                return [("val", Const(getattr(_up, name.split(".")[-1])(*[a.value for a in args], **{k: v.value for k, v in kws.items()})), s)]
            except ValueError:
                s.add(Event("raise", node, "ValueError", self.frame, "implicit"))
                return [("raise", "ValueError", s)]
            except Exception:
                pass
        if name in ("textwrap.indent", "textwrap.dedent", "textwrap.fill", "textwrap.wrap", "textwrap.shorten") and args \
                and all(a.kind == "const" and isinstance(a.value, (str, int)) for a in args) \
                and all(v.kind == "const" and isinstance(v.value, (str, int, bool, type(None))) for v in kws.values()):
            import textwrap as _tw

            try:
                return [("val", Const(getattr(_tw, name.split(".")[-1])(*[a.value for a in args], **{k: v.value for k, v in kws.items()})), s)]
            except Exception:
                pass
        if name in ("html.escape", "html.unescape") and args and all(a.kind == "const" for a in args) and all(v.kind == "const" for v in kws.values()) \
                and isinstance(args[0].value, str):
            import html as _html

            try:
                return [("val", Const(getattr(_html, name.split(".")[-1])(*[a.value for a in args], **{k: v.value for k, v in kws.items()})), s)]
            except Exception:
                pass
        if name in ("re.sub", "re.split", "re.findall", "re.subn") and len(args) >= 2 and all(a.kind == "const" for a in args) \
                and all(v.kind == "const" for v in kws.values()) and isinstance(args[0].value, (str, bytes)) \
                and all(isinstance(a.value, (str, bytes, int)) for a in args):
            import re as _re

            try:
                return [("val", Const(getattr(_re, name.split(".")[-1])(*[a.value for a in args], **{k: v.value for k, v in kws.items()})), s)]
            except Exception:
                pass
        if name in ("re.search", "re.match", "re.fullmatch") and len(args) in (2, 3) and all(a.kind == "const" for a in args) \
                and all(k == "flags" and v.kind == "const" for k, v in kws.items()) \
                and isinstance(args[0].value, (str, bytes)) and isinstance(args[1].value, type(args[0].value)) \
                and all(isinstance(a.value, int) for a in list(args[2:]) + list(kws.values())):
            import re as _re

            try:
                return [("val", Const(getattr(_re, name.split(".")[-1])(args[0].value, args[1].value, *[a.value for a in args[2:]],
                                                                        **{k: v.value for k, v in kws.items()})), s)]
            except _re.error:
                pass
        if name in ("typing.cast",) and len(args) == 2:
            return [("val", args[1], s)]
        if name == "builtins.bool" and args:
            t = truth(args[0])
            return [("val", Const(t) if t is not None else UNK, s)]
        if name in ("builtins.str", "builtins.int") and args and args[0].kind == "const":
            try:
                return [("val", Const({"builtins.str": str, "builtins.int": int}[name](args[0].value)), s)]
            except ValueError:
                if len(args) == 1 and not kws and isinstance(args[0].value, (str, bytes)):
                    # int() of this text fails the same way at run time
                    s.add(Event("raise", node, "ValueError", self.frame, "implicit"))
                    return [("raise", "ValueError", s)]
            except Exception:
                pass

        ev = Event("call", node, target, self.frame, {"args": args, "kws": kws})
        ev.defs = dict(s.defs) if s.defs else None
        s.add(ev)
        out = []
        # -- designated raise points
        if self.raise_points is not None:
            for exc in self.raise_points(node, target) or []:
                s_r = s.copy()
                s_r.add(Event("raise", node, exc, self.frame, "implicit"))
                out.append(("raise", exc, s_r))
        # -- summaries given by the rule take precedence over walking the callee
        val = None
        if self.call_value is not None:
            # the evaluated arguments of the call being summarised are available to the hook as walker.cur_args / cur_kws
            self.cur_args, self.cur_kws = args, kws
            val = self.call_value(node, target, s)
            if val is not None and val.kind == "raise":
                # the summary says that the call fails: AVal("raise", <exception name>)
                s.add(Event("raise", node, val.value, self.frame, "implicit"))
                return out + [("raise", val.value, s)]
        rv_ = self.cur_recv
        if val is None and self.exact_loops and target.kind != "repo" and isinstance(node.func, ast.Attribute) and rv_ is not None and rv_.kind == "const" \
                and dotted(node.func.value) != "self" and type(rv_.value) in (str, bytes, int, bool, float) and not hasattr(rv_.value, node.func.attr):
            # "text".items(), (3).strip(): no such method on a value of this type (the rule's own summaries had their say above)
            s.add(Event("raise", node, "AttributeError", self.frame, "implicit"))
            return out + [("raise", "AttributeError", s)]
        # -- a generator of the repository used as a value (list(gen()), x.extend(gen()), "".join(gen())): in evaluator mode
        #    it is run to the end and stands for the list of what it yields
        if val is None and self.exact_loops and target.kind == "repo" and len(target.funcs) == 1 and target.funcs[0] is not None \
                and not target.by_name and _is_generator(target.funcs[0]) and target.funcs[0] not in s.stack and s.depth <= self.max_depth:
            acc = "__genacc%d" % id(node)
            item = "__genitem%d" % id(node)
            loop = getattr(node, "_pgv_matloop", None)
            if loop is None:
                loop = ast.For(target=ast.Name(id=item, ctx=ast.Store()), iter=node,
                               body=[ast.Expr(value=ast.Call(func=ast.Attribute(value=ast.Name(id=acc, ctx=ast.Load()), attr="append", ctx=ast.Load()),
                                                             args=[ast.Name(id=item, ctx=ast.Load())], keywords=[]))], orelse=[])
                ast.copy_location(loop, node)
                ast.fix_missing_locations(loop)
                try:
                    node._pgv_matloop = loop
                except Exception:
                    pass
            s.events = s.events[:-1]  # the loop records the call itself
            s.env[acc] = Const([])
            res_ = []
            for k_, v_, s2_ in self._for_generator(loop, s, target):
                got = s2_.env.pop(acc, None)
                s2_.env.pop(item, None)
                if k_ == "next":
                    res_.append(("val", got if got is not None and got.kind == "const" else UNK, s2_))
                else:
                    res_.append((k_, v_, s2_))
            return out + res_
        # -- inlining
        if val is None and target.kind in ("repo", "ctor") and len(target.funcs) == 1 and (not target.by_name or self.inline_by_name):
            callee = target.funcs[0]
            if callee is not None and s.depth < self.max_depth and s.stack.count(callee) <= self.recursion \
                    and self.inline(callee, target, s.depth):
                out.extend(self._inline(node, target, callee, args, kws, s))
                return out
        if val is None and target.kind == "ctor":
            val = TRUTHY
        # a non-inlined repo call may assign self attributes: forget facts about them
        if target.kind == "repo":
            written = set()
            for f in target.funcs:
                written |= self_writes(self.prog, f, target.bound_cls or (f.cls))
            is_self_call = target.bound_cls is not None
            if is_self_call and written:
                for k in list(s.facts):
                    if k in self.assumptions and (k in self.sticky or k.endswith(")")):
                        continue
                    for w in written:
                        if k == w or _mentions(k, w):
                            del s.facts[k]
                            break
        out.append(("val", val if val is not None else UNK, s))
        return out

    def _inline(self, node, target: Target, callee: FuncInfo, args, kws, s: State):
        func, concrete = self.frame
        is_self = target.bound_cls is not None
        text = target.text or ""
        explicit_self = False
        # Base.m(self, ...) form
        if not is_self and callee.cls is not None and target.kind == "repo" and args is not None \
                and node.args and dotted(node.args[0]) == "self":
            is_self = True
            explicit_self = True
        params = list(callee.params)
        env: Dict[str, AVal] = {}
        avals = list(args)
        if callee.cls is not None and target.kind != "ctor":
            if explicit_self:
                avals = avals[1:]
            if params and params[0] == "cls" and any((dotted(dc) or "") == "classmethod" for dc in callee.node.decorator_list):
                env["cls"] = Ref(target.bound_cls or callee.cls)
            params = params[1:] if params and params[0] in ("self", "cls") else params
        elif target.kind == "ctor":
            params = params[1:] if params else params
        for p, v in zip(params, avals):
            env[p] = v
        for k, v in kws.items():
            if k in params:
                env[k] = v
        if not is_self and callee.cls is not None and target.kind == "repo" and callee.params[:1] == ["self"] and self.cur_recv is not None \
                and isinstance(node.func, ast.Attribute):
            env["self"] = self.cur_recv
        # defaults
        a = callee.node.args
        defaults = a.defaults
        all_params = [x.arg for x in a.posonlyargs + a.args]
        for p, d in zip(all_params[len(all_params) - len(defaults):], defaults):
            if p not in env and isinstance(d, ast.Constant):
                env[p] = Const(d.value)
        for p, d in zip([x.arg for x in a.kwonlyargs], a.kw_defaults):
            if p not in env and isinstance(d, ast.Constant):
                env[p] = Const(d.value)

        callee_concrete = None
        if is_self:
            callee_concrete = target.bound_cls or concrete
            facts = s.facts  # same object: same self
        else:
            callee_concrete = callee.cls
            facts = {k: v for k, v in s.facts.items() if not k.startswith("self.") and "self." not in k}
        # parameters stand for the caller's argument expressions (when those mention nothing the callee rebinds)
        pdefs = {}
        if node is not None and (is_self or callee.cls is None):
            try:
                from .facts import expand_ast as _xa

                argnodes = list(node.args)
                if explicit_self:
                    argnodes = argnodes[1:]
                callee_locals = _callee_locals(callee)
                pairs = list(zip(params, argnodes)) + [(k.arg, k.value) for k in node.keywords if k.arg in params]
                for p_, a_ in pairs:
                    if isinstance(a_, ast.Starred):
                        continue
                    ea = _xa(a_, self.frame[0], s.defs) if s.defs else a_
                    free = _names_of(ea) - {"self"}
                    if not (free & callee_locals) and (is_self or callee.cls is None or "self" not in _names_of(ea)):
                        pdefs[p_] = ea
            except Exception:
                pdefs = {}
        inner = State(env=env, facts=dict(facts), events=s.events, exc=None, depth=s.depth + 1,
                      stack=s.stack + (callee,), defs=pdefs)
        saved_frame = self.frame
        self.frame = (callee, callee_concrete)
        try:
            outs = self.exec_block(callee.node.body, inner)
        finally:
            self.frame = saved_frame
        results = []
        for k, v, si in outs:
            back = State(env=dict(s.env), facts=None, events=si.events, exc=s.exc, depth=s.depth, stack=s.stack,
                         defs=dict(s.defs))
            back.outer = s.outer
            if is_self:
                back.facts = si.facts
            else:
                back.facts = dict(s.facts)
                back.facts.update(_scratch(si.facts))
            if k == "raise":
                results.append(("raise", v, back))
            elif k == "return":
                results.append(("val", v if target.kind != "ctor" else TRUTHY, back))
            else:
                results.append(("val", Const(None) if target.kind != "ctor" else TRUTHY, back))
        return results


# ---------------------------------------------------------------------- helpers
PURE_STR_METHODS = {"startswith", "endswith", "strip", "lstrip", "rstrip", "lower", "upper", "find", "rfind", "count",
                    "isdigit", "isalpha", "isspace", "removeprefix", "removesuffix", "replace", "split", "rsplit",
                    "partition", "rpartition", "title", "capitalize", "index", "rindex", "zfill", "splitlines", "expandtabs", "casefold",
                    "swapcase", "isascii", "isalnum", "isupper", "islower", "isnumeric", "isdecimal", "center", "ljust", "rjust"}
# pure functions of the standard library that may be folded on constant arguments (POSIX semantics)
# pure functions of urllib.parse, folded on constant arguments (keyword arguments included)
PURE_URL_FUNCS = {"urllib.parse.unquote", "urllib.parse.unquote_plus", "urllib.parse.unquote_to_bytes", "urllib.parse.quote",
                  "urllib.parse.quote_plus", "urllib.parse.urlparse", "urllib.parse.urlsplit", "urllib.parse.parse_qs", "urllib.parse.parse_qsl"}
PURE_EXT_FUNCS = {"os.path.join", "os.path.normpath", "os.path.dirname", "os.path.basename", "os.path.split", "os.path.isabs",
                  "posixpath.join", "posixpath.normpath", "posixpath.dirname", "posixpath.basename", "posixpath.split"}
EXT_CONSTS = {
    "socket.MSG_PEEK": "<socket.MSG_PEEK>",
}


def _function_table(prog, node, cls):
    """A class-level dict/tuple literal whose values name functions defined in the class body (a dispatch table):
    {key: FuncInfo}; NOCONST otherwise."""
    def val(v):
        lit = _literal(v)
        if lit is not NOCONST:
            return lit
        if isinstance(v, ast.Name):
            for c in prog.mro(cls):
                if v.id in c.methods:
                    return c.methods[v.id]
            f = cls.module.functions.get(v.id)
            if f is not None:
                return f
        if isinstance(v, ast.Tuple):
            vals = [val(e) for e in v.elts]
            return NOCONST if any(x is NOCONST for x in vals) else tuple(vals)
        return NOCONST
    if isinstance(node, ast.Dict) and all(k is not None for k in node.keys):
        ks = [_literal(k) for k in node.keys]
        vs = [val(v) for v in node.values]
        if any(x is NOCONST for x in ks + vs):
            return NOCONST
        try:
            return dict(zip(ks, vs))
        except TypeError:
            return NOCONST
    if isinstance(node, (ast.Tuple, ast.List)):
        vs = [val(v) for v in node.elts]
        return NOCONST if any(x is NOCONST for x in vs) else tuple(vs)
    return NOCONST


def _namedtuple_type(cls):
    """A collections.namedtuple standing for a repository class derived from typing.NamedTuple (fields in declaration
    order, constant defaults); None for any other class."""
    cached = getattr(cls, "_pgv_nt", False)
    if cached is not False:
        return cached
    nt = None
    if any(isinstance(b, str) and b.split(".")[-1] == "NamedTuple" for b in cls.bases) and not cls.methods.get("__new__"):
        fields, defaults = [], []
        for st_ in cls.node.body:
            if isinstance(st_, ast.AnnAssign) and isinstance(st_.target, ast.Name):
                fields.append(st_.target.id)
                if st_.value is not None:
                    lit = _literal(st_.value)
                    if lit is NOCONST:
                        fields = None
                        break
                    defaults.append(lit)
                elif defaults:
                    fields = None
                    break
        if fields:
            import collections

            try:
                nt = collections.namedtuple(cls.name, fields, defaults=defaults or None)
            except Exception:
                nt = None
    try:
        cls._pgv_nt = nt
    except Exception:
        pass
    return nt


_LIST_MUTATORS = {"append", "extend", "insert", "remove", "pop", "sort", "reverse", "clear"}
_SET_MUTATORS = {"add", "discard", "remove", "update", "clear", "pop", "difference_update", "intersection_update"}
_DICT_MUTATORS = {"update", "pop", "setdefault", "clear", "popitem"}


def _declared_globals(func) -> set:
    cached = getattr(func, "_pgv_globals", None)
    if cached is None:
        cached = set()
        for n in ast.walk(func.node):
            if isinstance(n, ast.Global):
                cached.update(n.names)
        try:
            func._pgv_globals = cached
        except Exception:
            pass
    return cached


def _scratch(facts) -> dict:
    """Bookkeeping entries of an evaluation (keys starting with "__"): they belong to the run, not to a frame."""
    return {k: v for k, v in facts.items() if k.startswith("__")}


def _is_generator(func) -> bool:
    """Does the function's own body (nested functions excluded) contain a yield?"""
    cached = getattr(func, "_pgv_isgen", None)
    if cached is not None:
        return cached
    found = False
    stack = list(func.node.body)
    while stack and not found:
        n = stack.pop()
        if isinstance(n, (ast.FunctionDef, ast.AsyncFunctionDef, ast.Lambda, ast.ClassDef)):
            continue
        if isinstance(n, (ast.Yield, ast.YieldFrom)):
            found = True
        stack.extend(ast.iter_child_nodes(n))
    try:
        func._pgv_isgen = found
    except Exception:
        pass
    return found


def _mentions(text: str, key: str) -> bool:
    """Does expression text mention the name/attribute `key` as a whole token?"""
    import re
    return re.search(r"(?<![\w.])" + re.escape(key) + r"(?![\w])", text) is not None


def _const_of(node):
    if isinstance(node, ast.Constant):
        return (node.value,)
    if isinstance(node, ast.UnaryOp) and isinstance(node.op, ast.USub) and isinstance(node.operand, ast.Constant):
        try:
            return (-node.operand.value,)
        except Exception:
            return None
    return None


def _printable(x) -> bool:
    """Values whose text is defined: plain scalars, and the model objects of a rule (they define their own __str__)."""
    return isinstance(x, (str, bytes, int, float, bool, type(None))) or hasattr(type(x), "pgv_attr")


def _binop(op, a, b) -> AVal:
    try:
        if isinstance(op, ast.Add):
            return Const(a + b)
        if isinstance(op, ast.Sub):
            return Const(a - b)
        if isinstance(op, ast.Mult):
            return Const(a * b)
        if isinstance(op, ast.Mod) and not isinstance(a, (str, bytes)):
            return Const(a % b)
        if isinstance(op, ast.Mod) and isinstance(a, (str, bytes)) and (_printable(b) or (isinstance(b, tuple) and all(_printable(x) for x in b))):
            return Const(a % b)
        if isinstance(op, ast.FloorDiv):
            return Const(a // b)
        if isinstance(a, int) and isinstance(b, int):
            if isinstance(op, ast.BitAnd):
                return Const(a & b)
            if isinstance(op, ast.BitOr):
                return Const(a | b)
            if isinstance(op, ast.BitXor):
                return Const(a ^ b)
            if isinstance(op, ast.RShift) and 0 <= b < 64:
                return Const(a >> b)
            if isinstance(op, ast.LShift) and 0 <= b < 64:
                return Const(a << b)
    except Exception:
        pass
    return UNK


def _compare(op, a: AVal, b: AVal) -> Optional[bool]:
    if a.kind == "ref" and b.kind == "ref":
        same = a.value is b.value
        if isinstance(op, (ast.Is, ast.Eq)):
            return same
        if isinstance(op, (ast.IsNot, ast.NotEq)):
            return not same
        return None
    if a.kind == "nn" and b.kind == "const" and b.value is None:
        if isinstance(op, (ast.Is, ast.Eq)):
            return False
        if isinstance(op, (ast.IsNot, ast.NotEq)):
            return True
    if a.kind != "const" or b.kind != "const":
        # identity/equality with None when truthiness is known
        if isinstance(op, (ast.Is, ast.Eq)) and b.kind == "const" and b.value is None and truth(a) is True:
            return False
        if isinstance(op, (ast.IsNot, ast.NotEq)) and b.kind == "const" and b.value is None and truth(a) is True:
            return True
        return None
    x, y = a.value, b.value
    try:
        if isinstance(op, ast.Eq):
            return x == y
        if isinstance(op, ast.NotEq):
            return x != y
        if isinstance(op, ast.Is):
            return x is y if (x is None or y is None or isinstance(x, bool) or isinstance(y, bool)) else x == y
        if isinstance(op, ast.IsNot):
            return not (x is y if (x is None or y is None or isinstance(x, bool) or isinstance(y, bool)) else x == y)
        if isinstance(op, ast.Lt):
            return x < y
        if isinstance(op, ast.LtE):
            return x <= y
        if isinstance(op, ast.Gt):
            return x > y
        if isinstance(op, ast.GtE):
            return x >= y
        if isinstance(op, ast.In):
            return x in y
        if isinstance(op, ast.NotIn):
            return x not in y
    except Exception:
        return None
    return None


def _is_global_written(prog: Program, mod, name: str) -> bool:
    cache = getattr(mod, "_gw", None)
    if cache is None:
        cache = set()
        for n in ast.walk(mod.tree):
            if isinstance(n, ast.Global):
                cache.update(n.names)
        mod._gw = cache
    return name in cache


_BUILTIN_TYPES = {"dict": dict, "list": list, "str": str, "int": int, "bytes": bytes, "tuple": tuple, "set": set, "frozenset": frozenset,
                  "float": float, "bool": bool}
_PLAIN_TYPES = tuple(_BUILTIN_TYPES.values()) + (type(None),)


def _callee_locals(func):
    cached = getattr(func, "_pgv_locals_all", None)
    if cached is None:
        cached = set(func.params) | set(func.kwonly)
        for n in ast.walk(func.node):
            if isinstance(n, ast.Name) and isinstance(n.ctx, ast.Store):
                cached.add(n.id)
        func._pgv_locals_all = cached
    return cached


def _names_of(node):
    cached = getattr(node, "_pgv_names", None)
    if cached is None:
        cached = frozenset(n.id for n in ast.walk(node) if isinstance(n, ast.Name) and isinstance(n.ctx, ast.Load))
        try:
            node._pgv_names = cached
        except Exception:
            pass
    return cached


NOCONST = object()


def _regex_flags(node):
    """Value of a flags expression of the re module (re.I | re.ASCII, 0, re.RegexFlag.X); None when it is something else."""
    import re as _re

    if isinstance(node, ast.Constant) and isinstance(node.value, int):
        return node.value
    if isinstance(node, ast.BinOp) and isinstance(node.op, ast.BitOr):
        a, b = _regex_flags(node.left), _regex_flags(node.right)
        return None if a is None or b is None else a | b
    d = dotted(node) or ""
    if d.startswith("re.") and d.split(".")[-1].isupper():
        v = getattr(_re, d.split(".")[-1], None)
        return int(v) if isinstance(v, int) else None
    return None


def _literal(node):
    """Python value of a literal made of constants (tuples/lists/sets become tuples); NOCONST otherwise."""
    if isinstance(node, ast.Constant):
        return node.value
    if isinstance(node, (ast.Tuple, ast.List, ast.Set)):
        vals = [_literal(e) for e in node.elts]
        return NOCONST if any(v is NOCONST for v in vals) else tuple(vals)
    if isinstance(node, ast.Call) and isinstance(node.func, ast.Name) and node.func.id in ("frozenset", "tuple", "set", "list") \
            and len(node.args) == 1 and not node.keywords:
        return _literal(node.args[0])
    if isinstance(node, ast.Dict) and all(k is not None for k in node.keys):
        ks = [_literal(k) for k in node.keys]
        vs = [_literal(v) for v in node.values]
        if any(v is NOCONST for v in ks + vs):
            return NOCONST
        try:
            return dict(zip(ks, vs))
        except TypeError:
            return NOCONST
    if isinstance(node, ast.UnaryOp) and isinstance(node.op, ast.USub) and isinstance(node.operand, ast.Constant) \
            and isinstance(node.operand.value, (int, float)):
        return -node.operand.value
    if isinstance(node, ast.Call) and dotted(node.func) == "re.compile" and node.args and len(node.args) <= 2 \
            and isinstance(node.args[0], ast.Constant) and isinstance(node.args[0].value, (str, bytes)) \
            and all(k.arg == "flags" for k in node.keywords):
        import re as _re

        flagnodes = list(node.args[1:]) + [k.value for k in node.keywords]
        flags = 0
        for fn_ in flagnodes:
            fv = _regex_flags(fn_)
            if fv is None:
                return NOCONST
            flags |= fv
        try:
            return _re.compile(node.args[0].value, flags)
        except Exception:
            return NOCONST
    return NOCONST


def const_value(prog: Program, node, func: Optional[FuncInfo], cls: Optional[ClassInfo]):
    """Value of `node` when it is a literal, a module-level constant that is never rebound, or a class
    attribute (self.X / cls.X / ClassName.X) that no method assigns; NOCONST otherwise."""
    v = _literal(node)
    if v is not NOCONST:
        return v
    if isinstance(node, ast.Name) and func is not None and node.id in func.module.globals:
        vals = func.module.globals[node.id]
        if len(vals) == 1 and not _is_global_written(prog, func.module, node.id) and node.id not in func.params:
            local = any(isinstance(n, ast.Name) and n.id == node.id and isinstance(n.ctx, ast.Store) for n in ast.walk(func.node))
            if not local:
                return _literal(vals[0])
        return NOCONST
    if isinstance(node, ast.Attribute) and isinstance(node.value, ast.Name):
        owner = None
        if node.value.id in ("self", "cls") and cls is not None:
            owner = cls
        elif func is not None:
            res = prog.resolve_dotted(func.module, node.value.id)
            if res and res[0] == "class":
                owner = res[1]
        if owner is not None:
            a = prog.class_attr(owner, node.attr)
            if a is not None and not _attr_assigned_anywhere(prog, owner, node.attr):
                lv = _literal(a)
                if lv is NOCONST and isinstance(a, ast.Name) and a.id in owner.module.globals:
                    # a class constant that names a module constant
                    vals = owner.module.globals[a.id]
                    if len(vals) == 1 and not _is_global_written(prog, owner.module, a.id):
                        return _literal(vals[0])
                return lv
    return NOCONST


def _attr_assigned_anywhere(prog: Program, cls: ClassInfo, attr: str) -> bool:
    """Is self.<attr> (or obj.<attr>) assigned in any method of the class hierarchy?"""
    cache = getattr(prog, "_attr_writes", None)
    if cache is None:
        cache = {}
        for m in prog.modules.values():
            for n in ast.walk(m.tree):
                tg = []
                if isinstance(n, ast.Assign):
                    tg = n.targets
                elif isinstance(n, (ast.AugAssign, ast.AnnAssign)):
                    tg = [n.target]
                for t in tg:
                    for e in ast.walk(t):
                        if isinstance(e, ast.Attribute) and isinstance(e.ctx, ast.Store):
                            cache.setdefault(e.attr, []).append(m.relpath)
        prog._attr_writes = cache
    return attr in cache


def self_writes(prog: Program, func: FuncInfo, concrete: Optional[ClassInfo], _seen=None) -> set:
    """Set of 'self.x' texts a method (transitively through self-calls) may assign."""
    key = (func, concrete)
    cache = prog.__dict__.setdefault("_self_writes", {})
    if key in cache:
        return cache[key]
    _seen = _seen or set()
    if key in _seen:
        return set()
    _seen.add(key)
    out = set()
    for n in ast.walk(func.node):
        tg = []
        if isinstance(n, ast.Assign):
            tg = n.targets
        elif isinstance(n, (ast.AugAssign, ast.AnnAssign)):
            tg = [n.target]
        for t in tg:
            for e in ast.walk(t):
                if isinstance(e, ast.Attribute) and isinstance(e.ctx, ast.Store) and dotted(e.value) == "self":
                    out.add("self." + e.attr)
        if isinstance(n, ast.Call) and isinstance(n.func, ast.Attribute) and concrete is not None:
            rd = dotted(n.func.value)
            callee = None
            if rd == "self":
                callee = prog.resolve_method(concrete, n.func.attr)
            elif rd == "super()" and func.cls is not None:
                callee = prog.resolve_method(concrete, n.func.attr, after=func.cls)
            if callee is not None:
                out |= self_writes(prog, callee, concrete, _seen)
    cache[key] = out
    return out
