"""Effect summaries: which primitive effects a function may perform, closed over the
call graph (CHA + receiver tables of resolve.py).

Primitive table: external callee -> effect, one line of reason each.
"""

from __future__ import annotations

import ast
from typing import Dict, List, Optional, Set, Tuple

from .loader import ClassInfo, FuncInfo, Program, dotted, norm
from .resolve import Resolver, Target

# external dotted name -> effect kinds
PRIMITIVES: Dict[str, Tuple[str, ...]] = {
    # --- file system, read-only metadata
    "os.stat": ("FS_STAT",), "os.lstat": ("FS_STAT",), "os.access": ("FS_STAT",),
    "os.path.exists": ("FS_STAT",), "os.path.isdir": ("FS_STAT",), "os.path.isfile": ("FS_STAT",),
    "os.path.islink": ("FS_STAT",), "os.path.getmtime": ("FS_STAT",), "os.path.getsize": ("FS_STAT",),
    "os.path.lexists": ("FS_STAT",), "os.path.realpath": ("FS_STAT",), "os.readlink": ("FS_STAT",),
    "os.path.samefile": ("FS_STAT",), "os.path.abspath": (),  # abspath only consults cwd
    # --- listing
    "os.listdir": ("FS_LIST",), "os.scandir": ("FS_LIST",), "os.walk": ("FS_LIST",),
    "glob.glob": ("FS_LIST",), "glob.iglob": ("FS_LIST",), "os.fwalk": ("FS_LIST",),
    # --- open (mode decided at the call site)
    "builtins.open": ("FS_OPEN",), "io.open": ("FS_OPEN",), "os.open": ("FS_OPEN",),
    "codecs.open": ("FS_OPEN",), "io.FileIO": ("FS_OPEN",),
    "zipfile.ZipFile": ("FS_OPEN",), "zipfile.is_zipfile": ("FS_OPEN_R",),
    "tarfile.open": ("FS_OPEN",), "gzip.open": ("FS_OPEN",), "bz2.open": ("FS_OPEN",),
    "mailbox.mbox": ("FS_OPEN_R",), "mailbox.Maildir": ("FS_LIST",), "mailbox.MH": ("FS_LIST",),
    "shelve.open": ("FS_OPEN", "DESERIALISE"), "dbm.open": ("FS_OPEN",),
    "importlib.machinery.SourceFileLoader": ("FS_OPEN_R", "EXEC"),
    "importlib.util.spec_from_file_location": ("FS_OPEN_R",),
    "runpy.run_path": ("FS_OPEN_R", "EXEC"),
    "pathlib.Path": ("FS_STAT",),
    "shutil.copyfile": ("FS_OPEN_R", "FS_OPEN_W"), "shutil.copy": ("FS_OPEN_R", "FS_OPEN_W"),
    "shutil.copyfileobj": (),
    # --- mutation
    "os.unlink": ("FS_UNLINK",), "os.remove": ("FS_UNLINK",), "os.rmdir": ("FS_UNLINK",),
    "os.rename": ("FS_OPEN_W",), "os.replace": ("FS_OPEN_W",), "os.mkdir": ("FS_OPEN_W",),
    "os.makedirs": ("FS_OPEN_W",), "os.symlink": ("FS_OPEN_W",), "os.link": ("FS_OPEN_W",),
    "os.chmod": ("FS_OPEN_W",), "os.chown": ("FS_OPEN_W",), "os.truncate": ("FS_OPEN_W",),
    "shutil.rmtree": ("FS_UNLINK",), "shutil.move": ("FS_OPEN_W",), "os.utime": ("FS_OPEN_W",),
    "tempfile.mkstemp": ("FS_OPEN_W",), "tempfile.NamedTemporaryFile": ("FS_OPEN_W",),
    # --- process execution / code evaluation
    "subprocess.run": ("EXEC",), "subprocess.Popen": ("EXEC",), "subprocess.call": ("EXEC",),
    "subprocess.check_call": ("EXEC",), "subprocess.check_output": ("EXEC",),
    "subprocess.getoutput": ("EXEC",), "subprocess.getstatusoutput": ("EXEC",),
    "os.system": ("EXEC",), "os.popen": ("EXEC",), "os.execv": ("EXEC",), "os.execve": ("EXEC",),
    "os.execvp": ("EXEC",), "os.execl": ("EXEC",), "os.spawnv": ("EXEC",), "os.spawnl": ("EXEC",),
    "os.posix_spawn": ("EXEC",), "os.startfile": ("EXEC",),
    "builtins.eval": ("EVAL",), "builtins.exec": ("EVAL",), "builtins.compile": ("EVAL",),
    "builtins.__import__": ("EVAL",), "importlib.import_module": ("EVAL",),
    # --- (de)serialisation
    "pickle.load": ("DESERIALISE",), "pickle.loads": ("DESERIALISE",), "pickle.Unpickler": ("DESERIALISE",),
    "marshal.load": ("DESERIALISE",), "marshal.loads": ("DESERIALISE",),
    "pickle.dump": ("SERIALISE",), "pickle.dumps": ("SERIALISE",),
    # --- privilege
    "os.chroot": ("PRIV",), "os.setuid": ("PRIV",), "os.setgid": ("PRIV",), "os.seteuid": ("PRIV",),
    "os.setegid": ("PRIV",), "os.setreuid": ("PRIV",), "os.setregid": ("PRIV",),
    "os.setresuid": ("PRIV",), "os.setresgid": ("PRIV",), "os.setgroups": ("PRIV",),
    "os.initgroups": ("PRIV",), "os.chdir": ("CHDIR",), "os.fchdir": ("CHDIR",),
    # --- network
    "socket.socket": ("NET",), "socket.create_connection": ("NET",), "socket.create_server": ("NET", "BIND"),
    "urllib.request.urlopen": ("NET",),
    # --- time / randomness (purity of protocol tests)
    "time.time": ("TIME",), "time.sleep": ("TIME",), "random.random": ("RANDOM",), "random.choice": ("RANDOM",),
    "random.randint": ("RANDOM",), "os.urandom": ("RANDOM",), "time.monotonic": ("TIME",),
    "os.fork": ("FORK",), "os._exit": ("EXIT",), "sys.exit": ("EXIT",), "os.kill": ("SIGNAL",),
}

WRITE_MODE_CHARS = set("wax+")


def open_mode(call: ast.Call, name: str) -> Optional[str]:
    """Constant mode string of an open-like call ('r' default); None if not constant."""
    mode_node = None
    pos = {"builtins.open": 1, "io.open": 1, "codecs.open": 1, "zipfile.ZipFile": 1, "shelve.open": 1,
           "tarfile.open": 1, "gzip.open": 1, "bz2.open": 1, "dbm.open": 1, "io.FileIO": 1}.get(name, 1)
    if len(call.args) > pos:
        mode_node = call.args[pos]
    for k in call.keywords:
        if k.arg in ("mode", "flag"):
            mode_node = k.value
    if mode_node is None:
        if name in ("shelve.open", "dbm.open"):
            return "c"
        return "r"
    if isinstance(mode_node, ast.Constant) and isinstance(mode_node.value, str):
        return mode_node.value
    return None


def classify_open(call: ast.Call, name: str) -> Tuple[str, ...]:
    mode = open_mode(call, name)
    if name == "os.open":
        return ("FS_OPEN_R", "FS_OPEN_W")  # flags are not modelled
    if mode is None:
        return ("FS_OPEN_R", "FS_OPEN_W")
    if name in ("shelve.open", "dbm.open"):
        return ("FS_OPEN_R",) if mode == "r" else ("FS_OPEN_R", "FS_OPEN_W")
    if set(mode) & WRITE_MODE_CHARS:
        return ("FS_OPEN_W",) if "+" not in mode and "r" not in mode else ("FS_OPEN_R", "FS_OPEN_W")
    return ("FS_OPEN_R",)


def direct_effects(call: ast.Call, target: Target) -> Tuple[str, ...]:
    if target.kind != "ext" and not (target.kind == "ctor" and target.cls is None):
        return ()
    name = target.ext or ""
    effs = PRIMITIVES.get(name)
    if effs is None:
        # methods on unknown receivers: vfs-like names handled through repo resolution;
        # file-object methods are not effects of their own (the open was)
        return ()
    out = []
    for e in effs:
        if e == "FS_OPEN":
            out.extend(classify_open(call, name))
        else:
            out.append(e)
    return tuple(out)


# methods of the VFS layer (handlers.base.VFS_Real and subclasses): abstract effects
VFS_METHODS = {
    "stat": "FS_STAT", "isdir": "FS_STAT", "isfile": "FS_STAT", "exists": "FS_STAT",
    "listdir": "FS_LIST", "unlink": "FS_UNLINK", "copyto": "FS_OPEN_R", "open": "FS_OPEN",
    "iswritable": None, "getfspath": None, "getrootpath": None,
}


def vfs_open_mode(call: ast.Call) -> Optional[str]:
    node = None
    if len(call.args) > 1:
        node = call.args[1]
    for k in call.keywords:
        if k.arg == "mode":
            node = k.value
    if node is None:
        return "r"
    if isinstance(node, ast.Constant) and isinstance(node.value, str):
        return node.value
    return None


class EffectSite:
    __slots__ = ("effect", "call", "func", "target")

    def __init__(self, effect, call, func, target):
        self.effect = effect
        self.call = call
        self.func = func
        self.target = target

    def __repr__(self):
        return f"<{self.effect} {self.target.name} in {self.func.qualname}:{self.call.lineno}>"


class Effects:
    """Direct effect sites per function + transitive summaries."""

    def __init__(self, prog: Program, resolver: Resolver):
        self.prog = prog
        self.resolver = resolver
        self._direct: Dict[FuncInfo, List[EffectSite]] = {}
        self._calls: Dict[Tuple[FuncInfo, Optional[ClassInfo]], List[Tuple[ast.Call, Target]]] = {}
        self._summary: Dict[Tuple[FuncInfo, Optional[ClassInfo]], Set[str]] = {}
        self.unresolved: List[Tuple[FuncInfo, ast.Call]] = []

    def calls_of(self, func: FuncInfo, concrete: Optional[ClassInfo] = None):
        key = (func, concrete)
        if key not in self._calls:
            out = []
            for n in ast.walk(func.node):
                if isinstance(n, ast.Call):
                    t = self.resolver.resolve(n, func, concrete or func.cls)
                    out.append((n, t))
                    if t.kind == "unknown":
                        self.unresolved.append((func, n))
            self._calls[key] = out
        return self._calls[key]

    def direct(self, func: FuncInfo) -> List[EffectSite]:
        if func not in self._direct:
            sites = []
            for call, t in self.calls_of(func):
                for e in direct_effects(call, t):
                    sites.append(EffectSite(e, call, func, t))
                if self.is_vfs_call(t):
                    e = VFS_METHODS.get(t.funcs[0].name)
                    if e == "FS_OPEN":
                        mode = vfs_open_mode(call)
                        if mode is None or set(mode) & WRITE_MODE_CHARS:
                            sites.append(EffectSite("FS_OPEN_W", call, func, t))
                        if mode is None or not (set(mode) & WRITE_MODE_CHARS) or "+" in mode:
                            sites.append(EffectSite("FS_OPEN_R", call, func, t))
                    elif e:
                        sites.append(EffectSite(e, call, func, t))
            # global writes
            globs = set()
            for n in ast.walk(func.node):
                if isinstance(n, ast.Global):
                    globs.update(n.names)
            for n in ast.walk(func.node):
                if isinstance(n, ast.Name) and isinstance(n.ctx, ast.Store) and n.id in globs:
                    sites.append(EffectSite("GLOBAL_WRITE:" + n.id, n, func, Target("unknown", n.id)))
            self._direct[func] = sites
        return self._direct[func]

    def is_vfs_call(self, t: Target) -> bool:
        """Call on a VFS object from outside the VFS layer."""
        if t.kind != "repo" or not t.funcs or t.bound_cls is not None:
            return False
        vfs = self.prog.find_class("handlers.base.VFS_Real")
        if vfs is None:
            return False
        return all(f.cls is not None and self.prog.is_subclass(f.cls, vfs) for f in t.funcs) \
            and t.funcs[0].name in VFS_METHODS

    def summary(self, func: FuncInfo, concrete: Optional[ClassInfo] = None, _stack=None) -> Set[str]:
        """Transitive effect kinds (self-calls resolved against `concrete`)."""
        key = (func, concrete)
        if key in self._summary:
            return self._summary[key]
        _stack = _stack if _stack is not None else set()
        if key in _stack:
            return set()
        _stack.add(key)
        out = {s.effect for s in self.direct(func)}
        for call, t in self.calls_of(func, concrete):
            if self.is_vfs_call(t):
                continue  # abstract effect recorded at the call site
            if t.kind in ("repo", "ctor"):
                for f in t.funcs:
                    if f is None:
                        continue
                    sub_concrete = t.bound_cls if t.bound_cls is not None else None
                    out |= self.summary(f, sub_concrete, _stack)
        _stack.discard(key)
        self._summary[key] = out
        return out

    def sites(self, func: FuncInfo, concrete: Optional[ClassInfo] = None, _seen=None) -> List[EffectSite]:
        """All effect sites reachable from func (transitively)."""
        _seen = _seen if _seen is not None else set()
        key = (func, concrete)
        if key in _seen:
            return []
        _seen.add(key)
        out = list(self.direct(func))
        for call, t in self.calls_of(func, concrete):
            if self.is_vfs_call(t):
                continue
            if t.kind in ("repo", "ctor"):
                for f in t.funcs:
                    if f is not None:
                        out.extend(self.sites(f, t.bound_cls, _seen))
        return out
