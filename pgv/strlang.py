"""String-language reasoning for substring filters.

extract_filter(): from the walker's paths through a filter method, the constraints
every *accepting* path imposes on the filtered string, as forbidden factors (literal
strings or anchor-free regexes).  The accept language A is then contained in
NoFactor(F) for every accepting path, which is factor-closed.

climb_witnesses(): the finite set of minimal words of the specification languages
(what must be rejected).  For a factor-closed A, A ∩ M = ∅ iff no minimal witness of
M is in A (any longer word of M contains a minimal witness as a factor that is itself
in M).
"""

from __future__ import annotations

import ast
import itertools
import re
from typing import Dict, List, Optional, Set, Tuple

from .loader import dotted, norm
from .paths import Path, truth

try:  # regex AST (CPython private but stable module)
    import re._parser as sre_parse  # type: ignore
except Exception:  # pragma: no cover
    import sre_parse  # type: ignore


class Constraint:
    """nofactor / hasfactor on the subject string; value is str or compiled regex."""

    __slots__ = ("kind", "value", "text")

    def __init__(self, kind, value, text):
        self.kind = kind  # 'nofactor' | 'hasfactor' | 'nomatch'(regex) | 'match'
        self.value = value
        self.text = text

    def __repr__(self):
        return f"{self.kind}({self.text})"


def _is_subject(node, subject_texts: Set[str], binds) -> bool:
    if isinstance(node, ast.Name) and binds and node.id in binds and getattr(binds[node.id], "kind", "") == "sym":
        return True
    return norm(node) in subject_texts


PROG = None  # set by Ctx: lets class/module constants stand for their literal value


def _const_str(node, binds, frame=None, defs=None) -> Optional[List[str]]:
    """Constant string value(s) of a node (a Name bound to a constant counts)."""
    if isinstance(node, ast.Name) and binds and node.id in binds and binds[node.id].kind == "const" \
            and isinstance(binds[node.id].value, tuple) and binds[node.id].value and all(isinstance(x, str) for x in binds[node.id].value):
        return list(binds[node.id].value)
    if isinstance(node, ast.Name) and defs and node.id in defs and not (binds and node.id in binds):
        from .paths import NOCONST, _literal

        v = _literal(defs[node.id])
        if isinstance(v, str):
            return [v]
        if isinstance(v, tuple) and v and all(isinstance(x, str) for x in v):
            return list(v)
    if PROG is not None and frame is not None and isinstance(node, (ast.Name, ast.Attribute)) \
            and not (isinstance(node, ast.Name) and binds and node.id in binds):
        from .paths import NOCONST, const_value

        v = const_value(PROG, node, frame[0], frame[1])
        if isinstance(v, str):
            return [v]
        if isinstance(v, tuple) and v and all(isinstance(x, str) for x in v):
            return list(v)
    if isinstance(node, ast.Constant) and isinstance(node.value, str):
        return [node.value]
    if isinstance(node, ast.Name) and binds and node.id in binds and binds[node.id].kind == "const" \
            and isinstance(binds[node.id].value, str):
        return [binds[node.id].value]
    if isinstance(node, (ast.Tuple, ast.List, ast.Set)) and all(
            isinstance(e, ast.Constant) and isinstance(e.value, str) for e in node.elts):
        return [e.value for e in node.elts]
    return None


def regex_is_factor_safe(pattern: str) -> bool:
    """True when `re.search(pattern, s)` failing is a factor-closed property of s:
    no anchors, no look-around, no back-references."""
    try:
        tree = sre_parse.parse(pattern)
    except Exception:
        return False

    def walk(items) -> bool:
        for op, av in items:
            name = str(op)
            if name in ("AT", "ASSERT", "ASSERT_NOT", "GROUPREF", "GROUPREF_EXISTS"):
                return False
            if name in ("MAX_REPEAT", "MIN_REPEAT", "POSSESSIVE_REPEAT"):
                if not walk(av[2]):
                    return False
            elif name == "SUBPATTERN":
                if not walk(av[3]):
                    return False
            elif name == "BRANCH":
                for alt in av[1]:
                    if not walk(alt):
                        return False
            elif name == "ATOMIC_GROUP":
                if not walk(av):
                    return False
        return True

    return walk(tree)


def constraint_of(test_node, decided: bool, subject_texts: Set[str], binds=None, frame=None, defs=None) -> List[Constraint]:
    """Interpret one decided leaf test as constraint(s) on the subject, or []."""
    n = test_node
    out: List[Constraint] = []

    def add(kind, lits, regex=False):
        for lit in lits:
            out.append(Constraint(kind, lit, repr(lit)))

    # X.find(L) <op> c   /  X.count(L) <op> 0  / X.index? (raises) ignored
    if isinstance(n, ast.Compare) and len(n.ops) == 1:
        op, left, right = n.ops[0], n.left, n.comparators[0]
        # L in X / L not in X
        if isinstance(op, (ast.In, ast.NotIn)) and _is_subject(right, subject_texts, binds):
            lits = _const_str(left, binds, frame, defs)
            if lits is not None and len(lits) == 1:
                contains = decided if isinstance(op, ast.In) else not decided
                add("hasfactor" if contains else "nofactor", lits)
                return out
        if isinstance(left, ast.Call) and isinstance(left.func, ast.Attribute) \
                and left.func.attr in ("find", "rfind", "count") and _is_subject(left.func.value, subject_texts, binds) \
                and left.args:
            lits = _const_str(left.args[0], binds, frame, defs)
            rc = None
            if isinstance(right, ast.Constant):
                rc = right.value
            elif isinstance(right, ast.UnaryOp) and isinstance(right.op, ast.USub) and isinstance(right.operand, ast.Constant):
                rc = -right.operand.value
            if lits is not None and len(lits) == 1 and isinstance(rc, int):
                absent_val = -1 if left.func.attr in ("find", "rfind") else 0
                # truth of "value == absent" decides absence
                absent = None
                if isinstance(op, ast.Eq) and rc == absent_val:
                    absent = decided
                elif isinstance(op, ast.NotEq) and rc == absent_val:
                    absent = not decided
                elif isinstance(op, ast.Lt) and rc == absent_val + 1:
                    absent = decided
                elif isinstance(op, ast.LtE) and rc == absent_val:
                    absent = decided
                elif isinstance(op, ast.GtE) and rc == absent_val + 1:
                    absent = not decided
                elif isinstance(op, ast.Gt) and rc == absent_val:
                    absent = not decided
                if absent is not None:
                    add("nofactor" if absent else "hasfactor", lits)
                    return out
    # re.search(P, X) / pattern.search(X) truthiness
    if isinstance(n, ast.Call):
        d = dotted(n.func) or ""
        if d in ("re.search",) and len(n.args) >= 2 and _is_subject(n.args[1], subject_texts, binds):
            lits = _const_str(n.args[0], binds, frame, defs)
            if lits is not None and len(lits) == 1 and len(n.args) == 2 and not n.keywords:
                if decided:
                    out.append(Constraint("match", lits[0], "re:" + repr(lits[0])))
                elif regex_is_factor_safe(lits[0]):
                    out.append(Constraint("nomatch", lits[0], "re:" + repr(lits[0])))
                return out
        # any(L in X for L in (...)) / all(L not in X for L in (...))
        if d in ("any", "all") and len(n.args) == 1 and isinstance(n.args[0], (ast.GeneratorExp, ast.ListComp)):
            g = n.args[0]
            if len(g.generators) == 1 and not g.generators[0].ifs and isinstance(g.generators[0].target, ast.Name):
                var = g.generators[0].target.id
                lits = _const_str(g.generators[0].iter, binds, frame, defs)
                elt = g.elt
                if lits is not None and isinstance(elt, ast.Compare) and len(elt.ops) == 1 \
                        and isinstance(elt.left, ast.Name) and elt.left.id == var \
                        and _is_subject(elt.comparators[0], subject_texts, binds):
                    if d == "any" and isinstance(elt.ops[0], ast.In) and not decided:
                        add("nofactor", lits)
                        return out
                    if d == "all" and isinstance(elt.ops[0], ast.NotIn) and decided:
                        add("nofactor", lits)
                        return out
                if lits is not None and ((d == "all" and decided) or (d == "any" and not decided)):
                    # any other element test: it holds (all) / fails (any) for every literal of the sequence
                    import copy

                    for lit in lits:
                        class _Sub(ast.NodeTransformer):
                            def visit_Name(self, nm, _lit=lit):
                                return ast.copy_location(ast.Constant(value=_lit), nm) if nm.id == var and isinstance(nm.ctx, ast.Load) else nm

                        sub = ast.fix_missing_locations(_Sub().visit(copy.deepcopy(elt)))
                        out.extend(constraint_of(sub, d == "all", subject_texts, binds, frame, defs))
                    return out
    return out


def path_constraints(path: Path, subject_texts: Set[str], frame_filter=None) -> List[Constraint]:
    out = []
    for ev in path.events:
        if ev.kind != "test" or ev.target != "assumed":
            continue
        out.extend(constraint_of(ev.node, bool(ev.extra), subject_texts, getattr(ev, "binds", None), ev.frame, getattr(ev, "defs", None)))
    return out


def accepts(constraints: List[Constraint], word: str) -> bool:
    """Could a string `word` satisfy all negative constraints? (positive ones ignored:
    over-approximation of the accept language)."""
    for c in constraints:
        if c.kind == "nofactor" and c.value in word:
            return False
        if c.kind == "nomatch":
            try:
                if re.search(c.value, word):
                    return False
            except re.error:
                pass
    return True


# ---------------------------------------------------------------- specification
SEPS = ["/", "\\"]


def climb_witnesses() -> Dict[str, List[str]]:
    """Minimal words of the languages the filter must reject (POSIX / Windows path
    semantics, taken from the property's own list of climbing forms)."""
    m1 = set()
    for left in [""] + SEPS:
        for right in [""] + SEPS:
            m1.add(left + ".." + right)
    return {
        "dot-dot component": sorted(m1),
        "doubled slash": ["//"],
        "doubled backslash": ["\\\\"],
        "NUL": ["\0"],
    }


SPEC_REGEX = re.compile(r"(^|[/\\])\.\.($|[/\\])|//|\\\\|\x00")


def violates_spec(word: str) -> bool:
    """Is `word` (a whole selector) a climbing form?"""
    return SPEC_REGEX.search(word) is not None


CLIMB_REGEX = re.compile(r"(^|[/\\])\.\.($|[/\\])|\x00")


def climbs(word: str) -> bool:
    """Does a path built *inside* the server climb?  (A doubled separator in a path the
    server concatenates itself, e.g. "/" + "/gophermap", is harmless: only a '..'
    component or a NUL is not.)"""
    return CLIMB_REGEX.search(word) is not None


def representatives(constraints: List[Constraint], maxlen: int = 2, alphabet="/.\\a") -> List[str]:
    """All words up to maxlen over the alphabet that the filter may accept."""
    out = [""]
    for n in range(1, maxlen + 1):
        for tup in itertools.product(alphabet, repeat=n):
            w = "".join(tup)
            if accepts(constraints, w):
                out.append(w)
    return out
