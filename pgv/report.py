"""Obligations, evidence files, known findings, exit codes."""

from __future__ import annotations

import json
import os
import time
from typing import Dict, List, Optional

from . import VERIF

EVIDENCE_DIR = os.path.join(VERIF, "evidence")
REPLAY_DIR = os.path.join(EVIDENCE_DIR, "replay")
KNOWN_FINDINGS = os.path.join(VERIF, "known_findings.json")


class Obligation:
    __slots__ = ("rule", "instance", "ok", "where", "detail", "key", "nontrivial")

    def __init__(self, rule, instance, ok, where="", detail="", key=None, nontrivial=True):
        self.rule = rule
        self.instance = instance
        self.ok = bool(ok)
        self.where = where
        self.detail = detail
        # key: rule + construct, never a line number
        self.key = key or f"{rule}|{instance}"
        self.nontrivial = nontrivial

    def as_dict(self) -> dict:
        return {
            "rule": self.rule,
            "instance": self.instance,
            "verdict": "ok" if self.ok else "VIOLATION",
            "where": self.where,
            "detail": self.detail,
        }


class Report:
    def __init__(self, property_id: str, tier: str = "quick", seed: int = 0):
        self.property_id = property_id
        self.tier = tier
        self.seed = seed
        self.obligations: List[Obligation] = []
        self.explanation: List[str] = []
        self.assumptions: List[str] = []
        self.functions: List[str] = []
        self.extra: Dict[str, object] = {}
        self.t0 = time.time()
        self.floors: Dict[str, int] = {}

    # -------------------------------------------------------------- recording
    def rule(self, rule_id: str, text: str, floor: int = 1):
        """Declare a rule; `floor` = minimum number of instances it must enumerate."""
        self.explanation.append(f"{rule_id}: {text}")
        self.floors[rule_id] = floor

    def add(self, rule, instance, ok, where="", detail="", key=None, nontrivial=True) -> Obligation:
        ob = Obligation(rule, instance, ok, where, detail, key, nontrivial)
        self.obligations.append(ob)
        return ob

    def ok(self, rule, instance, where="", detail="", **kw):
        return self.add(rule, instance, True, where, detail, **kw)

    def fail(self, rule, instance, where="", detail="", **kw):
        return self.add(rule, instance, False, where, detail, **kw)

    def assume(self, text: str):
        if text not in self.assumptions:
            self.assumptions.append(text)

    def analysed(self, *names: str):
        for n in names:
            if n not in self.functions:
                self.functions.append(n)

    # --------------------------------------------------------------- results
    @property
    def violations(self) -> List[Obligation]:
        return [o for o in self.obligations if not o.ok]

    def check_floors(self):
        """A rule that matched fewer instances than its floor did not see the anchor
        it is about: the mechanism is gone, which is reported as a violation of that
        rule (fail closed), never as a silent pass."""
        counts: Dict[str, int] = {}
        for o in self.obligations:
            counts[o.rule] = counts.get(o.rule, 0) + 1
        for rule_id, floor in self.floors.items():
            if counts.get(rule_id, 0) < floor:
                self.fail(
                    rule_id,
                    "instance-floor",
                    detail=f"rule enumerated {counts.get(rule_id, 0)} instance(s), needs at least {floor}: "
                    f"the construct this rule is anchored in was not found in the current tree",
                    key=f"{rule_id}|instance-floor",
                )

    def finish(self, write: bool = True) -> int:
        self.check_floors()
        known = load_known().get(self.property_id, {})
        wall = time.time() - self.t0
        viol = self.violations
        new, listed, seen_keys = [], [], set()
        for o in viol:
            if o.key in seen_keys:
                continue  # one report per rule+construct
            seen_keys.add(o.key)
            (listed if o.key in known else new).append(o)
        for o in listed:
            print(f"KNOWN-FINDING: property={self.property_id} {o.rule} {o.instance}: {known[o.key]}")
        replay_paths = []
        if write:
            os.makedirs(REPLAY_DIR, exist_ok=True)
            # drop stale replay files of this property
            for fn in os.listdir(REPLAY_DIR):
                if fn.startswith(self.property_id + "-"):
                    try:
                        os.unlink(os.path.join(REPLAY_DIR, fn))
                    except OSError:
                        pass
        for i, o in enumerate(new):
            path = os.path.join(REPLAY_DIR, f"{self.property_id}-{i}.json")
            if write:
                with open(path, "w") as fp:
                    json.dump({"property_id": self.property_id, "tier": self.tier, **o.as_dict(), "key": o.key}, fp, indent=1)
            replay_paths.append(path)
            print(f"VIOLATION property={self.property_id} replay={path}")
            print(f"  rule={o.rule} instance={o.instance} at {o.where}")
            print(f"  {o.detail}")
        if write:
            self.write_evidence(wall, len(new), len(listed))
        n_ok = len([o for o in self.obligations if o.ok])
        print(
            f"{self.property_id} [{self.tier}] obligations={len(self.obligations)} discharged={n_ok} "
            f"violations={len(new)} known={len(listed)} wall={wall:.2f}s"
        )
        return 1 if new else 0

    def write_evidence(self, wall: float, n_new: int, n_known: int):
        os.makedirs(EVIDENCE_DIR, exist_ok=True)
        obs = self.obligations
        distinct = len({o.key for o in obs if o.nontrivial})
        by_rule: Dict[str, Dict[str, int]] = {}
        for o in obs:
            d = by_rule.setdefault(o.rule, {"instances": 0, "discharged": 0})
            d["instances"] += 1
            d["discharged"] += 1 if o.ok else 0
        # samples: every violation, plus up to 3 obligations per rule
        samples = [o.as_dict() for o in obs if not o.ok]
        seen: Dict[str, int] = {}
        for o in obs:
            if o.ok and seen.get(o.rule, 0) < 3:
                seen[o.rule] = seen.get(o.rule, 0) + 1
                samples.append(o.as_dict())
        cov = {
            "explanation": " | ".join(self.explanation) or "static rules",
            "obligations": len(obs),
            "discharged": len([o for o in obs if o.ok]),
            "evaluations": max(len(obs), 1),
            "distinct_nontrivial": distinct,
            "rule": "one obligation per (rule, construct) enumerated from the current source tree; "
                    "an obligation is non-trivial when discharging it needed a guard, summary or path argument "
                    "rather than being vacuous; distinct by rule+construct key",
            "samples": samples[:60],
            "per_rule": by_rule,
            "functions_analysed": self.functions[:200],
            "known_findings_listed": n_known,
            "checker_cmd": f"/venv/bin/python -m pgv check {self.property_id} --tier {self.tier}",
            "trusted_base": ["CPython ast module", "pgv engine (loader, paths, effects, prov)"],
        }
        cov.update(self.extra)
        ev = {
            "property_id": self.property_id,
            "tier": self.tier,
            "seed": self.seed,
            "level": "other",
            "coverage": cov,
            "assumptions": self.assumptions,
            "wall_s": round(wall, 3),
            "violations": n_new,
        }
        path = os.path.join(EVIDENCE_DIR, f"{self.property_id}.json")
        tmp = path + ".tmp"
        with open(tmp, "w") as fp:
            json.dump(ev, fp, indent=1, default=str)
        os.replace(tmp, path)


def load_known() -> Dict[str, Dict[str, str]]:
    """property -> key -> what; only entries with status 'known' suppress anything."""
    out: Dict[str, Dict[str, str]] = {}
    if not os.path.exists(KNOWN_FINDINGS):
        return out
    with open(KNOWN_FINDINGS) as fp:
        data = json.load(fp)
    for e in data.get("findings", []):
        if e.get("status") == "known":
            out.setdefault(e["property"], {})[e["key"]] = e.get("what", "")
    return out
