"""Seeded faults and benign twins (source-text edits of the current tree).

Kept as data.  `fault(id, property, rule, (relpath, old, new)...)`:
the property's check must report a violation of `rule`.  `twin(id, property, ...)`:
the check must stay silent.
"""

from .variants import fault, twin

INIT = "pygopherd/initialization.py"
BASE = "pygopherd/handlers/base.py"
HM = "pygopherd/handlers/HandlerMultiplexer.py"
URL = "pygopherd/handlers/url.py"
MBOX = "pygopherd/handlers/mbox.py"
ZIP = "pygopherd/handlers/ZIP.py"
PYG = "pygopherd/handlers/pyg.py"
EXEC = "pygopherd/handlers/scriptexec.py"
GMAP = "pygopherd/handlers/gophermap.py"
DIR = "pygopherd/handlers/dir.py"
UMN = "pygopherd/handlers/UMN.py"
FILE = "pygopherd/handlers/file.py"
VIRT = "pygopherd/handlers/virtual.py"
HTML = "pygopherd/handlers/html.py"
TAL = "pygopherd/handlers/tal.py"
GE = "pygopherd/gopherentry.py"
PBASE = "pygopherd/protocols/base.py"
HTTP = "pygopherd/protocols/http.py"
WAP = "pygopherd/protocols/wap.py"
GEM = "pygopherd/protocols/gemini.py"
SPAR = "pygopherd/protocols/spartan.py"
GP = "pygopherd/protocols/gopherp.py"
RFC = "pygopherd/protocols/rfc1436.py"
PMUX = "pygopherd/protocols/ProtocolMultiplexer.py"
SERVER = "pygopherd/server.py"
GEXC = "pygopherd/GopherExceptions.py"
BIN = "bin/pygopherd"
CONF = "conf/pygopherd.conf"
TALPY = "simpletal/simpleTAL.py"
TALES = "simpletal/simpleTALES.py"
TALU = "simpletal/simpleTALUtils.py"

# ======================================================================= C19
fault("c19-no-chdir", "C19", "R19b", (INIT, '        os.chdir("/")\n', ""))
fault("c19-uid-before-gid", "C19", "R19b",
      (INIT, '''    if gid is not None:
        os.setregid(gid, gid)
        logger.log(f"Switched to group {gid}")

    if uid is not None:
        os.setreuid(uid, uid)
        logger.log(f"Switched to uid {uid}")
''', '''    if uid is not None:
        os.setreuid(uid, uid)
        logger.log(f"Switched to uid {uid}")

    if gid is not None:
        os.setregid(gid, gid)
        logger.log(f"Switched to group {gid}")
'''))
fault("c19-no-setgroups", "C19", "R19b", (INIT, "        os.setgroups(())\n", "        pass\n"))
fault("c19-setgroups-only-gid", "C19", "R19b", (INIT, "    if uid is not None or gid is not None:\n        os.setgroups(())", "    if gid is not None:\n        os.setgroups(())"))
fault("c19-seteuid", "C19", "R19b", (INIT, "os.setreuid(uid, uid)", "os.seteuid(uid)"))
fault("c19-setreuid-keep-real", "C19", "R19b", (INIT, "os.setreuid(uid, uid)", "os.setreuid(-1, uid)"))
fault("c19-setegid", "C19", "R19b", (INIT, "os.setregid(gid, gid)", "os.setegid(gid)"))
fault("c19-chroot-after-setuid", "C19", "R19b",
      (INIT, '''    if config.getboolean("pygopherd", "usechroot"):
        chroot_user = config.get("pygopherd", "root")
        os.chroot(chroot_user)
        os.chdir("/")
        logger.log(f"Chrooted to {chroot_user}")
        config.set("pygopherd", "root", "/")

''', ""),
      (INIT, '''        logger.log(f"Switched to uid {uid}")
''', '''        logger.log(f"Switched to uid {uid}")

    if config.getboolean("pygopherd", "usechroot"):
        chroot_user = config.get("pygopherd", "root")
        os.chroot(chroot_user)
        os.chdir("/")
        logger.log(f"Chrooted to {chroot_user}")
        config.set("pygopherd", "root", "/")
'''))
fault("c19-no-rootset", "C19", "R19b", (INIT, '        config.set("pygopherd", "root", "/")\n', ""))
fault("c19-uid-needs-gid", "C19", "R19b", (INIT, "    if uid is not None:\n        os.setreuid", "    if uid is not None and gid is not None:\n        os.setreuid"))
fault("c19-setgroups-nonempty", "C19", "R19b", (INIT, "os.setgroups(())", "os.setgroups((0,))"))
fault("c19-swallow-setuid", "C19", "R19c", (INIT, "        os.setreuid(uid, uid)\n", "        try:\n            os.setreuid(uid, uid)\n        except OSError:\n            pass\n"))
fault("c19-swallow-chroot", "C19", "R19c", (INIT, "        os.chroot(chroot_user)\n", "        try:\n            os.chroot(chroot_user)\n        except OSError as e:\n            logger.log(str(e))\n"))
fault("c19-swallow-getpwnam", "C19", "R19", (INIT, '        uid = pwd.getpwnam(config.get("pygopherd", "setuid"))[2]\n',
                                             '        try:\n            uid = pwd.getpwnam(config.get("pygopherd", "setuid"))[2]\n        except KeyError:\n            uid = None\n'))
fault("c19-swallow-server", "C19", "R19c", (INIT, '        logger.log("Application startup NOT successful!")\n        raise\n', '        logger.log("Application startup NOT successful!")\n        server = None\n'))
fault("c19-security-before-bind", "C19", "R19a",
      (INIT, "    init_security(config)\n\n    root =", "    root ="),
      (INIT, "    server = get_server(config, context=context)\n", "    init_security(config)\n    server = get_server(config, context=context)\n"))
fault("c19-tls-after-security", "C19", "R19a",
      (INIT, "    context = init_ssl_context(config)\n\n    server = get_server(config, context=context)\n", "    server = get_server(config)\n"),
      (INIT, "    init_security(config)\n", "    init_security(config)\n    server.context = init_ssl_context(config)\n"))
fault("c19-security-skipped-when-detached", "C19", "R19a", (INIT, "    init_security(config)\n\n    root =", '    if not config.getboolean("pygopherd", "detach"):\n        init_security(config)\n\n    root ='))
fault("c19-bin-swallow", "C19", "R19c", (BIN, "s = initialization.initialize(args.config)\n", "try:\n    s = initialization.initialize(args.config)\nexcept Exception as e:\n    print(e)\n"))
twin("c19-twin-setgid-setuid", "C19", (INIT, "os.setregid(gid, gid)", "os.setgid(gid)"), (INIT, "os.setreuid(uid, uid)", "os.setuid(uid)"))
twin("c19-twin-hoist-options", "C19",
     (INIT, '    if config.has_option("pygopherd", "setuid"):\n', '    want_uid = config.has_option("pygopherd", "setuid")\n    if want_uid:\n'))
twin("c19-twin-chdir-before-chroot", "C19", (INIT, '        os.chroot(chroot_user)\n        os.chdir("/")\n', '        os.chdir(chroot_user)\n        os.chroot(chroot_user)\n'))
twin("c19-twin-log-after", "C19", (INIT, '        logger.log(f"Chrooted to {chroot_user}")\n        config.set("pygopherd", "root", "/")\n', '        config.set("pygopherd", "root", "/")\n        logger.log(f"Chrooted to {chroot_user}")\n'))
twin("c19-twin-setresuid", "C19", (INIT, "os.setreuid(uid, uid)", "os.setresuid(uid, uid, uid)"))

# ======================================================================= C01
for i, lit in enumerate(['"./"', '".."', '"//"', '".\\\\"', '"\\\\\\\\"', '"\\0"']):
    # dropping "./" or ".\\" alone leaves every climbing word rejected (".." still is): those two are twins
    edit = (BASE, f"(self.selector.find({lit}) == -1)", "True")
    if lit in ('"./"', '".\\\\"'):
        twin(f"c01-filter-drop-{i}", "C01", edit, note="'./' and '.\\\\' are not needed to reject climbing words")
    else:
        fault(f"c01-filter-drop-{i}", "C01", "R01a", edit)
fault("c01-filter-dotdot-slash", "C01", "R01a", (BASE, '(self.selector.find("..") == -1)', '(self.selector.find("../") == -1)'))
fault("c01-filter-or", "C01", "R01a", (BASE, '            and (self.selector.find("..") == -1)\n', '            or (self.selector.find("..") == -1)\n'))
fault("c01-filter-inverted", "C01", "R01a", (BASE, '(self.selector.find("//") == -1)', '(self.selector.find("//") != -1)'))
twin("c01-twin-filter-in", "C01",
     (BASE, '''        return (
            (self.selector.find("./") == -1)
            and (self.selector.find("..") == -1)
            and (self.selector.find("//") == -1)
            and (self.selector.find(".\\\\") == -1)
            and (self.selector.find("\\\\\\\\") == -1)
            and (self.selector.find("\\0") == -1)
            # "/dir/." is "/dir" under another name: everything below it
            # would be "/dir/./x" and refused above, so the directory would
            # list (and cache) as empty
            and not self.selector.endswith("/.")
        )''', '''        return not any(bad in self.selector for bad in ("./", "..", "//", ".\\\\", "\\\\\\\\", "\\0")) and not self.selector.endswith("/.")'''))
twin("c01-twin-filter-sequential", "C01",
     (BASE, '''        return (
            (self.selector.find("./") == -1)
            and (self.selector.find("..") == -1)''', '''        if ".." in self.selector:
            return False
        for bad in ("//", "\\0"):
            if bad in self.selector:
                return False
        return (
            (self.selector.find("./") == -1)
            and (self.selector.find("..") == -1)'''))
twin("c01-twin-filter-regex", "C01", (BASE, '            and (self.selector.find("..") == -1)\n', '            and not re.search(r"\\.\\.", self.selector)\n'),
     (BASE, "import configparser\n", "import configparser\nimport re\n"))
fault("c01-gate-or", "C01", "R01c", (BASE, "        return self.isrequestsecure() and self.canhandlerequest()\n\n    def isrequestsecure", "        return self.isrequestsecure() or self.canhandlerequest()\n\n    def isrequestsecure"))
fault("c01-gate-swapped", "C01", "R01c", (BASE, "        return self.isrequestsecure() and self.canhandlerequest()\n\n    def isrequestsecure", "        return self.canhandlerequest() and self.isrequestsecure()\n\n    def isrequestsecure"))
fault("c01-gate-dropped", "C01", "R01c", (BASE, "        return self.isrequestsecure() and self.canhandlerequest()\n\n    def isrequestsecure", "        return self.canhandlerequest()\n\n    def isrequestsecure"))
twin("c01-twin-gate-if", "C01", (BASE, "        return self.isrequestsecure() and self.canhandlerequest()\n\n    def isrequestsecure", "        if not self.isrequestsecure():\n            return False\n        return self.canhandlerequest()\n\n    def isrequestsecure"))
fault("c01-gethandler-unconditional", "C01", "R01c", (HM, "        if htry.isrequestforme():\n            return htry.gethandler()", "        if htry.isrequestforme() or statresult:\n            return htry.gethandler()"))
fault("c01-gethandler-none", "C01", "R01c", (HM, '    raise GopherExceptions.FileNotFound(selector, "no handler found", protocol)', "    return None"))
fault("c01-override-forme", "C01", "R01c", (FILE, "class FileHandler(BaseHandler):\n", "class FileHandler(BaseHandler):\n    def isrequestforme(self):\n        return self.canhandlerequest()\n\n"))
fault("c01-relaxed-with-fs", "C01", "R01e", (URL, '            self.entry.type = "h"\n', '            self.entry.type = "h"\n            self.entry.populatefromfs(self.selector, None, vfs=self.vfs)\n'))
fault("c01-new-relaxed-handler", "C01", "R01", (FILE, "class FileHandler(BaseHandler):\n", "class FileHandler(BaseHandler):\n    def isrequestsecure(self):\n        return True\n\n"))
fault("c01-init-opens", "C01", "R01d", (VIRT, "                self.statresult = self.vfs.stat(self.selectorreal)\n", "                self.statresult = self.vfs.stat(self.selectorreal)\n                self.vfs.listdir(self.selectorreal)\n"))
twin("c01-twin-init-helper", "C01", (VIRT, "            try:\n                self.statresult = self.vfs.stat(self.selectorreal)\n            except (OSError, ValueError):\n                pass\n", "            self._restat()\n"),
     (VIRT, "    def genargsselector", "    def _restat(self):\n        try:\n            self.statresult = self.vfs.stat(self.selectorreal)\n        except (OSError, ValueError):\n            pass\n\n    def genargsselector"))
fault("c01-raw-open-in-handler", "C01", "R01f", (FILE, "        self.vfs.copyto(self.getselector(), wfile)\n", '        with open(self.config.get("pygopherd", "root") + self.searchrequest, "rb") as fp:\n            wfile.write(fp.read())\n'))
fault("c01-getfspath-join", "C01", "R01f", (BASE, "        fspath = self.getrootpath() + selector\n", "        fspath = os.path.join(self.getrootpath(), selector)\n"))
fault("c01-getfspath-unquote", "C01", "R01", (BASE, "        fspath = self.getrootpath() + selector\n", "        import urllib.parse\n        fspath = self.getrootpath() + urllib.parse.unquote(selector)\n"))
fault("c01-rootpath-other", "C01", "R01f", (BASE, '            rootpath = self.config.get("pygopherd", "root")\n', '            rootpath = self.config.get("pygopherd", "mimetypes")\n'))
fault("c01-suffix-dotdot", "C01", "R01f", (GMAP, 'and self.vfs.isfile(self.getselector() + "/gophermap")', 'and self.vfs.isfile(self.getselector() + "/../gophermap")'))
fault("c01-searchrequest-path", "C01", "R01f", (HTML, "        with self.vfs.open(self.getselector(), \"rb\") as fp:", "        with self.vfs.open(self.getselector() + self.searchrequest, \"rb\") as fp:"))
fault("c01-selectorargs-sidecar", "C01", "R01f", (EXEC, "        args = [self.getfspath()]\n", "        args = [self.vfs.getrootpath() + self.searchrequest]\n"))
fault("c01-d15-unfixed", "C01", "R01f", (GMAP, "                            and probe.isrequestsecure()\n", ""))
twin("c01-twin-d15-early-continue", "C01",
     (GMAP, "                        if (\n                            selector.startswith(\"/\")\n                            and probe.isrequestsecure()\n                            and self.vfs.exists(selector)\n                        ):\n                            entry.populatefromvfs(self.vfs, selector)\n",
      "                        if selector.startswith(\"/\"):\n                            if probe.isrequestsecure():\n                                if self.vfs.exists(selector):\n                                    entry.populatefromvfs(self.vfs, selector)\n"))
fault("c01-linkfile-open", "C01", "R01f", (UMN, "                    entry.setselector(pathname)\n                    entry.setneedsabspath(True)\n", "                    entry.setselector(pathname)\n                    entry.setneedsabspath(True)\n                    entry.populatefromvfs(self.vfs, pathname)\n"))
fault("c01-decode-in-handler", "C01", "R01g", (VIRT, "        super().__init__(selector, searchrequest, protocol, config, statresult, vfs)\n", "        import urllib.parse\n        selector = urllib.parse.unquote(selector)\n        super().__init__(selector, searchrequest, protocol, config, statresult, vfs)\n"))
fault("c01-decode-after-gate", "C01", "R01g", (SPAR, "            handler = self.gethandler()\n            self.log(handler)\n", "            handler = self.gethandler()\n            self.selector = urllib.parse.unquote(self.selector)\n            self.log(handler)\n"))
fault("c01-eval-selector", "C01", "R01j", (FILE, "        decompprog = self.decompressors[self.getentry().realencoding]\n", "        decompprog = eval(self.selectorargs) if False else self.decompressors[self.getentry().realencoding]\n"))
fault("c01-vfs-test-dropped-pyg", "C01", "R01i", (PYG, "        if type(self.vfs) is not VFS_Real:\n            return False\n", ""))
fault("c01-vfs-test-isinstance", "C01", "R01i", (MBOX, "        if type(self.vfs) is not VFS_Real:\n            return False\n\n        if not self.selectorargs:", "        if not isinstance(self.vfs, VFS_Real):\n            return False\n\n        if not self.selectorargs:"))
fault("c01-vfs-test-dropped-zip", "C01", "R01i", (ZIP, "        if type(self.vfs) is not VFS_Real:\n            return False\n", ""))
fault("c01-vfs-test-dropped-exec", "C01", "R01i", (EXEC, "            type(self.vfs) is VFS_Real\n            and self.statresult", "            self.statresult"))
fault("c01-urlrewriter-bypass", "C01", "R01c", (URL, "        return handlers.HandlerMultiplexer.getHandler(\n            self.selector[2:],\n            self.searchrequest,\n            self.protocol,\n            self.config,\n            handlerlist,\n        )",
                                               "        from pygopherd.handlers.file import FileHandler\n        return FileHandler(self.selector[2:], self.searchrequest, self.protocol, self.config, None)"))
fault("c01-cachename-from-search", "C01", "R01f", (DIR, '            self.cachename = self.selector + "/" + self.cachefile\n', '            self.cachename = self.selector + "/" + (self.searchrequest or self.cachefile)\n'))
twin("c01-twin-cachefile-rename", "C01", (CONF, "cachefile = .cache.pygopherd.dir", "cachefile = .cache.pgd"))
fault("c01-cachefile-dotdot", "C01", "R01f", (CONF, "cachefile = .cache.pygopherd.dir", "cachefile = ../cache.pygopherd.dir"))
twin("c01-twin-getfspath-local", "C01", (BASE, "        fspath = self.getrootpath() + selector\n", "        root = self.getrootpath()\n        fspath = root + selector\n"))

# ======================================================================= C16
for m in ("stat", "isdir", "isfile", "exists", "open", "listdir", "unlink"):
    fault(f"c16-drop-override-{m}", "C16", "R16a", (ZIP, f"    def {m}(", f"    def _unused_{m}("))
fault("c16-open-fallback-real", "C16", "R16a", (ZIP, '            raise IOError("Request to open %s, which does not exist" % selector)', "            return self.chain.open(selector, mode)"))
fault("c16-readlink-real", "C16", "R16c", (ZIP, '                    dest = os.path.normpath(dest)\n', '                    dest = os.path.normpath(dest)\n                    dest = os.path.realpath(dest)\n'))
fault("c16-inner-special-list", "C16", "R16d", (ZIP, "self.getselector(), self.searchrequest, self.protocol, self.config, vfs=vfs\n", "self.getselector(), self.searchrequest, self.protocol, self.config\n"))
fault("c16-vfs-test-isinstance", "C16", "R16b", (PYG, "        if type(self.vfs) is not VFS_Real:", "        if not isinstance(self.vfs, VFS_Real):"))
fault("c16-vfs-test-dropped-maildir", "C16", "R16b", (MBOX, "        if type(self.vfs) is not VFS_Real:\n            return 0\n", ""))
twin("c16-twin-vfs-test-eq", "C16", (PYG, "        if type(self.vfs) is not VFS_Real:", "        if type(self.vfs) != VFS_Real:"))
twin("c16-twin-vfs-test-notisinstance-zip", "C16", (PYG, "        if type(self.vfs) is not VFS_Real:", "        from pygopherd.handlers.ZIP import VFSZip\n        if isinstance(self.vfs, VFSZip):"))

# ======================================================================= C02
fault("c02-last-match", "C02", "R02a", (PMUX, "        if ptry.canhandlerequest():\n            return ptry\n", "        if ptry.canhandlerequest():\n            found = ptry\n    return found\n"),
      (PMUX, "    for protocol in p:\n", "    found = None\n    for protocol in p:\n"))
fault("c02-sorted-list", "C02", "R02a", (PMUX, "    for protocol in p:\n", "    for protocol in sorted(p, key=lambda c: c.__name__):\n"))
fault("c02-return-unconditional", "C02", "R02a", (PMUX, "        if ptry.canhandlerequest():\n            return ptry\n", "        ptry.canhandlerequest()\n        return ptry\n"))
twin("c02-twin-loop-else", "C02", (PMUX, "        if ptry.canhandlerequest():\n            return ptry\n", "        if ptry.canhandlerequest():\n            return ptry\n    else:\n        return None\n"))
for name, rel, old in (("rfc", RFC, "        if self.secure != self.check_tls():\n            return False\n\n        if len(self.requestlist) > 1:"),
                       ("gopherp", GP, "        if self.secure != self.check_tls():\n            return False\n\n        if len(self.requestlist) < 2:"),
                       ("http", HTTP, "        if self.secure != self.check_tls():\n            return False\n\n        self.requestparts")):
    fault(f"c02-parity-dropped-{name}", "C02", "R02b", (rel, old, old.split("\n\n", 1)[1]))
fault("c02-parity-dropped-gemini", "C02", "R02b", (GEM, 'return self.check_tls() and self.request.startswith("gemini://")', 'return self.request.startswith("gemini://")'))
fault("c02-parity-dropped-spartan", "C02", "R02b", (SPAR, "        if self.check_tls():\n            return False\n", ""))
fault("c02-gemini-secure-flag", "C02", "R02b", (GEM, "    secure = True\n\n    query_prefix", "    secure = False\n\n    query_prefix"))
fault("c02-parity-or", "C02", "R02b", (RFC, "        if self.secure != self.check_tls():\n            return False\n", "        if self.secure != self.check_tls() and len(self.requestlist) > 3:\n            return False\n"))
fault("c02-checktls-wrong", "C02", "R02b", (PBASE, "return isinstance(self.requesthandler.request, ssl.SSLSocket)", "return isinstance(self.requesthandler.request, ssl.SSLContext)"))
twin("c02-twin-parity-isnot", "C02", (RFC, "        if self.secure != self.check_tls():\n            return False\n", "        if self.check_tls() is not self.secure:\n            return False\n"))
twin("c02-twin-parity-nested", "C02", (HTTP, "        if self.secure != self.check_tls():\n            return False\n\n        self.requestparts = [arg.strip() for arg in self.request.split(\" \")]\n        return (",
                                       "        if self.secure == self.check_tls():\n            self.requestparts = [arg.strip() for arg in self.request.split(\" \")]\n            return (\n                len(self.requestparts) == 3\n                and (self.requestparts[0] == \"GET\" or self.requestparts[0] == \"HEAD\")\n                and self.requestparts[2][0:5] == \"HTTP/\"\n            )\n        return False\n        return ("))
fault("c02-d1-unfixed", "C02", "R02c", (GP, 'self.gopherpstring.startswith("+")', 'self.gopherpstring[0] == "+"'))
fault("c02-gopherp-guard-off", "C02", "R02c", (GP, "        if len(self.requestlist) < 2:\n            return False\n        if len(self.requestlist) == 2:", "        if len(self.requestlist) <= 2:"))
fault("c02-http-len-guard", "C02", "R02c", (HTTP, "            len(self.requestparts) == 3\n            and (self", "            len(self.requestparts) >= 2\n            and (self"))
fault("c02-spartan-index", "C02", "R02c", (SPAR, "            len(parts) == 3\n            and all(parts)\n            and parts[2].isdigit()", "            parts[2].isdigit()\n            and len(parts) == 3\n            and all(parts)"))
fault("c02-catchall-first", "C02", "R02d", (CONF, "protocols = [wap.WAPProtocol, gemini.GeminiProtocol,", "protocols = [rfc1436.GopherProtocol, wap.WAPProtocol, gemini.GeminiProtocol,"))
fault("c02-no-secure-catchall", "C02", "R02d", (CONF, "             rfc1436.GopherProtocol, rfc1436.SecureGopherProtocol]", "             rfc1436.GopherProtocol]"))
twin("c02-twin-reorder-noncatchall", "C02", (CONF, "protocols = [wap.WAPProtocol, gemini.GeminiProtocol,", "protocols = [gemini.GeminiProtocol, wap.WAPProtocol,"))
fault("c02-catchall-not-total", "C02", "R02d", (RFC, "        if len(self.requestlist) > 1:\n            self.searchrequest = self.requestlist[1]\n        return True", "        if len(self.requestlist) > 1:\n            self.searchrequest = self.requestlist[1]\n        return len(self.requestlist) < 4"))
fault("c02-impure-test", "C02", "R02e", (SPAR, "        # The request line must be ASCII encoded\n", "        import time\n        if time.time() % 2 < 1:\n            return False\n"))
fault("c02-no-peek", "C02", "R02f", (SERVER, "sock.recv(1, socket.MSG_PEEK)", "sock.recv(1)"))
fault("c02-peek-two", "C02", "R02f", (SERVER, "sock.recv(1, socket.MSG_PEEK)", "sock.recv(2, socket.MSG_PEEK)"))
fault("c02-wrong-byte", "C02", "R02f", (SERVER, 'b"\\x16"', 'b"\\x15"'))
fault("c02-wrap-always", "C02", "R02f", (SERVER, '            if sock.recv(1, socket.MSG_PEEK) == b"\\x16":\n                return', '            if sock.recv(1, socket.MSG_PEEK) != b"\\x00":\n                return'))
fault("c02-wrap-in-parent", "C02", "R02f", (SERVER, "        pid = os.fork()\n", "        request = self.wrap_socket(request)\n        pid = os.fork()\n"), (SERVER, "                request = self.wrap_socket(request)\n                self.finish_request(request, client_address)\n                status = 0", "                self.finish_request(request, client_address)\n                status = 0"))
fault("c02-thread-no-sniff", "C02", "R02f", (SERVER, "            request = self.wrap_socket(request)\n            self.finish_request(request, client_address)\n        except Exception:", "            self.finish_request(request, client_address)\n        except Exception:"))
fault("c02-result-dropped", "C02", "R02f", (SERVER, "            request = self.wrap_socket(request)\n            self.finish_request(request, client_address)\n        except Exception:", "            self.wrap_socket(request)\n            self.finish_request(request, client_address)\n        except Exception:"))
twin("c02-twin-peek-local", "C02", (SERVER, '            if sock.recv(1, socket.MSG_PEEK) == b"\\x16":\n', '            peeked = sock.recv(1, socket.MSG_PEEK)\n            if peeked == b"\\x16":\n'))
twin("c02-twin-early-return", "C02", (SERVER, '        if self.context:\n            if sock.recv(1, socket.MSG_PEEK) == b"\\x16":\n                return self.context.wrap_socket(sock, server_side=True)\n        return sock', '        if not self.context:\n            return sock\n        if sock.recv(1, socket.MSG_PEEK) != b"\\x16":\n            return sock\n        return self.context.wrap_socket(sock, server_side=True)'))

# ======================================================================= C03
for name, rel in (("base", PBASE), ("gopherp", GP), ("http", HTTP)):
    fault(f"c03-no-fnf-handler-{name}", "C03", "R03a", (rel, "        except GopherExceptions.FileNotFound as e:\n            self.filenotfound(str(e))\n", ""))
fault("c03-no-io-handler-gemini", "C03", "R03a", (GEM, "        except IOError as e:\n            GopherExceptions.log(e, self, None)\n            self.write_status(51, e.strerror or str(e))\n            return\n", ""))
fault("c03-gemini-body-after-error", "C03", "R03a", (GEM, "            self.write_status(51, str(e))\n            return\n", "            self.write_status(51, str(e))\n"))
fault("c03-spartan-two-status", "C03", "R03a", (SPAR, "        if handler.isdir():\n            self.write_status(2, \"text/gemini\")", "        self.write_status(2, \"text/gemini\")\n        if handler.isdir():\n            self.write_status(2, \"text/gemini\")"))
fault("c03-gethandler-outside-try", "C03", "R03a", (PBASE, "        try:\n            handler = self.gethandler()\n            self.log(handler)\n", "        handler = self.gethandler()\n        try:\n            self.log(handler)\n"))
twin("c03-twin-oserror-alias", "C03", (PBASE, "        except IOError as e:\n            GopherExceptions.log(e, self, None)\n            self.filenotfound(e.strerror)", "        except OSError as e:\n            GopherExceptions.log(e, self, None)\n            self.filenotfound(e.strerror)"))
twin("c03-twin-msg-local", "C03", (PBASE, "            self.filenotfound(str(e))\n        except IOError", "            msg = str(e)\n            self.filenotfound(msg)\n        except IOError"))
fault("c03-d2-unfixed", "C03", "R03b", (GEM, "        try:\n            url_parts = urllib.parse.urlparse(self.request.strip())\n        except ValueError:\n            self.write_status(59, \"Bad request\")\n            return\n", "        url_parts = urllib.parse.urlparse(self.request.strip())\n"))
fault("c03-d3-unfixed", "C03", "R03b", (MBOX, "            message = next(mailbox, None)\n", "            message = next(mailbox)\n"))
fault("c03-d13-unfixed", "C03", "R03b", (SPAR, "        urlmatch = re.match(\"(/|)URL:(.+)$\", entry.getselector())\n        if urlmatch:\n            # It's a plain URL.  Make it that.\n            url = urlmatch.group(2)", "        if re.match(\"(/|)URL:\", entry.getselector()):\n            url = re.match(\"(/|)URL:(.+)$\", entry.getselector()).group(2)"))
fault("c03-d17-unfixed", "C03", "R03e", (MBOX, "        try:\n            mailbox = iter(self.openmailbox())\n        except NoSuchMailboxError:\n            raise GopherExceptions.FileNotFound(\n                self.selector, \"no such mailbox\", self.protocol\n            )\n", "        mailbox = iter(self.openmailbox())\n"))
fault("c03-rfc-guard-off", "C03", "R03b", (RFC, "        if len(self.requestlist) > 1:\n            self.searchrequest", "        if len(self.requestlist) > 0:\n            self.searchrequest"))
fault("c03-http-split-guard", "C03", "R03b", (HTTP, "        if len(splitted) >= 2:\n            self.formvals", "        if len(splitted) >= 1:\n            self.formvals"))
fault("c03-http-formvals-guard", "C03", "R03b", (HTTP, '        if "searchrequest" in self.formvals:\n            self.searchrequest = self.formvals["searchrequest"][0]', '        self.searchrequest = self.requestparts[3]'))
fault("c03-http-icon-guard", "C03", "R03b", (HTTP, "        if icon:\n            iconname = icon.group(1)", "        if True:\n            iconname = icon.group(1)"))
fault("c03-mbox-none-guard", "C03", "R03b", (MBOX, "        if match is None:\n            return False\n\n", ""))
fault("c03-spartan-isdigit-dropped", "C03", "R03b", (SPAR, "            and parts[2].isdigit()\n            and len(parts[2]) <= 18", ""))
fault("c03-spartan-len-dropped", "C03", "R03b", (SPAR, "            len(parts) == 3\n            and all(parts)", "            len(parts) >= 3\n            and all(parts)"))
fault("c03-spartan-ascii-dropped", "C03", "R03b", (SPAR, "        try:\n            self.request.encode(\"ascii\")\n        except UnicodeEncodeError:\n            return False\n", ""))
fault("c03-slashnormalize-guard", "C03", "R03b", (PBASE, '        if len(selector) and selector[-1] == "/" and selector[-2:-1] != "/":', '        if selector[-1] == "/" and selector[-2:-1] != "/":'))
fault("c03-urlrewriter-guard", "C03", "R03b", (URL, "            len(self.selector) >= 3\n            and self.selector[0]", "            len(self.selector) >= 2\n            and self.selector[0]"))
fault("c03-wap-before-http", "C03", "R03b", (WAP, "        ishttp = HTTPProtocol.canhandlerequest(self)\n        if not ishttp:\n            return False\n", "        ishttp = HTTPProtocol.canhandlerequest(self)\n"))
fault("c03-headerslurp-guard", "C03", "R03b", (HTTP, "            if len(splitline) == 2:\n", "            if len(splitline) >= 1:\n"))
twin("c03-twin-not-ge", "C03", (GP, "        if len(self.requestlist) < 2:\n            return False\n", "        if not len(self.requestlist) >= 2:\n            return False\n"))
twin("c03-twin-slice-for-startswith", "C03", (GP, 'self.gopherpstring.startswith("+")', 'self.gopherpstring[0:1] == "+"'))
twin("c03-twin-len-local", "C03", (RFC, "        if len(self.requestlist) > 1:\n", "        n = len(self.requestlist)\n        if n > 1:\n"))
fault("c03-gethandler-none", "C03", "R03c", (HM, '    raise GopherExceptions.FileNotFound(selector, "no handler found", protocol)', "    return None"))
twin("c03-twin-raise-local", "C03", (HM, '    raise GopherExceptions.FileNotFound(selector, "no handler found", protocol)', '    err = GopherExceptions.FileNotFound(selector, "no handler found", protocol)\n    raise err'))
fault("c03-write-state", "C03", "R03d", (FILE, "        self.vfs.copyto(self.getselector(), wfile)\n", '        self.vfs.copyto(self.getselector(), wfile)\n        with self.vfs.open(self.getselector() + ".hits", "a") as fp:\n            fp.write("x")\n'))

# ======================================================================= C13
fault("c13-d7-unfixed", "C13", "R13a", (HTTP, "return self.getrenderstr(entry, html.escape(url))", "return self.getrenderstr(entry, url)"))
fault("c13-dirend-unescaped", "C13", "R13a", (HTTP, "' [<A HREF=\"%s\">view with gopher</A>]' % html.escape(\n            entry.geturl(self.server.server_name, self.server.server_port)\n        )", "' [<A HREF=\"%s\">view with gopher</A>]' % entry.geturl(\n            self.server.server_name, self.server.server_port\n        )"))
fault("c13-name-unescaped", "C13", "R13a", (HTTP, "            retstr += html.escape(entry.getname())\n        else:\n            retstr += html.escape(entry.getselector())", "            retstr += entry.getname()\n        else:\n            retstr += html.escape(entry.getselector())"))
fault("c13-selector-unescaped", "C13", "R13a", (HTTP, "            retstr += html.escape(entry.getname())\n        else:\n            retstr += html.escape(entry.getselector())", "            retstr += html.escape(entry.getname())\n        else:\n            retstr += entry.getselector()"))
fault("c13-title-unescaped", "C13", "R13a", (HTTP, 'retstr += "\\n<HTML><HEAD><TITLE>Gopher"\n        if self.entry.getname():\n            retstr += ": " + html.escape(self.entry.getname())', 'retstr += "\\n<HTML><HEAD><TITLE>Gopher"\n        if self.entry.getname():\n            retstr += ": " + self.entry.getname()'))
fault("c13-404-unescaped", "C13", "R13a", (HTTP, "        self.wfile.write(html.escape(msg).encode(errors=\"surrogateescape\"))\n        self.wfile.write(b\"</TT><HR>", "        self.wfile.write(msg.encode(errors=\"surrogateescape\"))\n        self.wfile.write(b\"</TT><HR>"))
fault("c13-wap-404-unescaped", "C13", "R13a", (WAP, 'wfile.write(html.escape(msg).encode(errors="surrogateescape") + b"\\n")', 'wfile.write(msg.encode(errors="surrogateescape") + b"\\n")'))
fault("c13-wap-name-unescaped", "C13", "R13a", (WAP, "            thisname = html.escape(entry_name)\n", "            thisname = entry_name\n"))
fault("c13-wap-text-unescaped", "C13", "R13a", (WAP, 'wfile.write(html.escape(line).encode(errors="surrogateescape") + b"\\n")', 'wfile.write(line.encode(errors="surrogateescape") + b"\\n")'))
fault("c13-wap-title-unescaped", "C13", "R13a", (WAP, "retval += '<card id=\"index\" title=\"%s\" newcontext=\"true\">' % html.escape(title)", "retval += '<card id=\"index\" title=\"%s\" newcontext=\"true\">' % self.entry.getname()"))
fault("c13-attr-noquote", "C13", "R13a", (HTTP, "return self.getrenderstr(entry, html.escape(url))", "return self.getrenderstr(entry, html.escape(url, quote=False))"))
fault("c13-quote-safe-quotes", "C13", "R13a", (HTTP, "return self.getrenderstr(entry, html.escape(url))", "return self.getrenderstr(entry, urllib.parse.quote(url, safe='/:\"<>'))"))
fault("c13-redirect-unescaped", "C13", "R13a", (URL, "        url = html.escape(url)\n", ""))
fault("c13-subtype-unescaped", "C13", "R13a", (HTTP, "                retstr += html.escape(subtype.group()[1:])", "                retstr += entry.getname()[1:]"))
twin("c13-twin-escape-local", "C13", (HTTP, "            retstr += html.escape(entry.getname())\n        else:\n            retstr += html.escape(entry.getselector())", "            shown = html.escape(entry.getname())\n            retstr += shown\n        else:\n            retstr += html.escape(entry.getselector())"))
twin("c13-twin-fstring", "C13", (HTTP, "            retstr += '<A HREF=\"%s\">' % url", "            retstr += f'<A HREF=\"{url}\">'"))
twin("c13-twin-quote-for-escape", "C13", (HTTP, "return self.getrenderstr(entry, html.escape(url))", "return self.getrenderstr(entry, urllib.parse.quote(url, safe='/:'))"))
fault("c13-header-name", "C13", "R13b", (HTTP, '            self.wfile.write(f"Content-Type: {mimetype}\\r\\n\\r\\n".encode())', '            self.wfile.write(f"Content-Disposition: inline; filename={self.entry.getname()}\\r\\n".encode())\n            self.wfile.write(f"Content-Type: {mimetype}\\r\\n\\r\\n".encode())'))
fault("c13-header-mimetype-from-request", "C13", "R13b", (HTTP, "            mimetype = self.adjustmimetype(mimetype)\n", "            mimetype = self.adjustmimetype(mimetype)\n            if \"type\" in self.formvals:\n                mimetype = self.formvals[\"type\"][0]\n"))
twin("c13-twin-header-order", "C13", (HTTP, '            self.wfile.write(b"HTTP/1.0 200 OK\\r\\n")\n            if self.entry.getmtime() is not None:', '            self.wfile.write(b"HTTP/1.0 200 OK\\r\\n")\n            self.wfile.write(b"Server: pygopherd\\r\\n")\n            if self.entry.getmtime() is not None:'))
fault("c13-redirect-filter-quote", "C13", "R13c", (URL, "            and self.selector.find('\"') == -1\n", ""))
fault("c13-redirect-filter-lf", "C13", "R13c", (URL, '            and self.selector.find("\\n") == -1\n', ""))
fault("c13-block-no-prefix", "C13", "R13d", (GP, '                        " " + x + "\\r\\n"', '                        x + "\\r\\n"'))
fault("c13-block-split-n", "C13", "R13d", (GP, 'for x in entry.getea(blockname.upper()).splitlines()', 'for x in entry.getea(blockname.upper()).split("\\n")'))
fault("c13-block-raw", "C13", "R13d", (GP, '                + "".join(\n                    [\n                        " " + x + "\\r\\n"\n                        for x in entry.getea(blockname.upper()).splitlines()\n                    ]\n                )', '                + " " + entry.getea(blockname.upper()) + "\\r\\n"'))
twin("c13-twin-block-fstring", "C13", (GP, '                        " " + x + "\\r\\n"', '                        " " + x.rstrip() + "\\r\\n"'))
fault("c13-title-no-collapse", "C13", "R13e", (HTML, '            title = re.sub(r"[\\s]+", " ", parser.titlestr)\n', "            title = parser.titlestr\n"))
fault("c13-subject-no-collapse", "C13", "R13e", (MBOX, '            subject = re.sub(r"\\s+", " ", subject)\n', ""))
fault("c13-title-collapse-spaces-only", "C13", "R13e", (HTML, 'title = re.sub(r"[\\s]+", " ", parser.titlestr)', 'title = re.sub(r" +", " ", parser.titlestr)'))
twin("c13-twin-collapse-join-split", "C13", (HTML, 'title = re.sub(r"[\\s]+", " ", parser.titlestr)', 'title = re.sub(r"\\s+", " ", parser.titlestr).strip()'))

# ======================================================================= C10
fault("c10-le", "C10", "R10a", (DIR, "if time.time() - statval[stat.ST_MTIME] < self.cachetime:", "if time.time() - statval[stat.ST_MTIME] <= self.cachetime:"))
fault("c10-gt", "C10", "R10a", (DIR, "if time.time() - statval[stat.ST_MTIME] < self.cachetime:", "if time.time() - statval[stat.ST_MTIME] > self.cachetime:"))
fault("c10-const", "C10", "R10a", (DIR, "if time.time() - statval[stat.ST_MTIME] < self.cachetime:", "if time.time() - statval[stat.ST_MTIME] < 180:"))
fault("c10-ctime-of-dir", "C10", "R10a", (DIR, "            statval = self.vfs.stat(self.cachename)\n", "            statval = self.vfs.stat(self.selector)\n"))
fault("c10-atime", "C10", "R10a", (DIR, "statval[stat.ST_MTIME] < self.cachetime", "statval[stat.ST_ATIME] < self.cachetime"))
fault("c10-no-test", "C10", "R10a", (DIR, "if time.time() - statval[stat.ST_MTIME] < self.cachetime:", "if statval:"))
fault("c10-cachetime-other-option", "C10", "R10a", (DIR, 'self.cachetime = self.config.getint("handlers.dir.DirHandler", "cachetime")', 'self.cachetime = self.config.getint("pygopherd", "timeout")'))
twin("c10-twin-rearranged", "C10", (DIR, "if time.time() - statval[stat.ST_MTIME] < self.cachetime:", "if statval[stat.ST_MTIME] + self.cachetime > time.time():"))
twin("c10-twin-not-ge", "C10", (DIR, "if time.time() - statval[stat.ST_MTIME] < self.cachetime:", "if not (time.time() - statval[stat.ST_MTIME] >= self.cachetime):"))
twin("c10-twin-locals", "C10", (DIR, "        if time.time() - statval[stat.ST_MTIME] < self.cachetime:", "        now = time.time()\n        age = now - statval[stat.ST_MTIME]\n        if age < self.cachetime:"))
twin("c10-twin-early-return", "C10", (DIR, "        if time.time() - statval[stat.ST_MTIME] < self.cachetime:\n", "        if time.time() - statval[stat.ST_MTIME] >= self.cachetime:\n            return False\n        if True:\n"))
fault("c10-resave-on-hit", "C10", "R10b", (DIR, "        if self.fromcache:\n            # Don't resave the cache.\n            return\n", ""))
fault("c10-fromcache-before-load", "C10", "R10b", (DIR, "        self.fromcache = False\n        if not hasattr", "        self.fromcache = True\n        if not hasattr"))
fault("c10-fromcache-not-reset", "C10", "R10b", (DIR, "        self.fromcache = False\n        if not hasattr", "        if not hasattr"))
twin("c10-twin-wrap-write", "C10", (DIR, "        if self.fromcache:\n            # Don't resave the cache.\n            return\n        if not self.vfs.iswritable(self.cachename):\n            return\n        try:\n            with self.vfs.open(self.cachename, \"wb\") as fp:\n                pickle.dump(self.fileentries, fp, 1)\n        except IOError:\n            pass",
                                   "        if not self.fromcache:\n            if not self.vfs.iswritable(self.cachename):\n                return\n            try:\n                with self.vfs.open(self.cachename, \"wb\") as fp:\n                    pickle.dump(self.fileentries, fp, 1)\n            except IOError:\n                pass"))
fault("c10-save-in-base-prepare", "C10", "R10c", (DIR, "        self.prep_entries()\n        return True  # Did something.", "        self.prep_entries()\n        self.savecache()\n        return True  # Did something."),
      (DIR, "    def getdirlist(self):\n        self.savecache()\n        return self.fileentries", "    def getdirlist(self):\n        return self.fileentries"))
fault("c10-no-save", "C10", "R10c", (DIR, "    def getdirlist(self):\n        self.savecache()\n        return self.fileentries", "    def getdirlist(self):\n        return self.fileentries"))
fault("c10-save-from-protocol", "C10", "R10c", (PBASE, "        endstr = self.renderdirend(entry)\n", "        self.handler.savecache()\n        endstr = self.renderdirend(entry)\n"),
      (DIR, "    def getdirlist(self):\n        self.savecache()\n        return self.fileentries", "    def getdirlist(self):\n        return self.fileentries"))
fault("c10-sort-after-save", "C10", "R10c", (DIR, "    def getdirlist(self):\n        self.savecache()\n        return self.fileentries", "    def getdirlist(self):\n        self.savecache()\n        self.fileentries.reverse()\n        return self.fileentries"))
twin("c10-twin-getdirlist-local", "C10", (DIR, "    def getdirlist(self):\n        self.savecache()\n        return self.fileentries", "    def getdirlist(self):\n        entries = self.fileentries\n        self.savecache()\n        return entries"))
fault("c10-umn-sort-unconditional", "C10", "R10d", (UMN, "        if super().prepare():\n            # Returns 1 if it didn't load from the cache.\n            # Merge and sort.\n            self.MergeLinkFiles()\n            self.fileentries.sort(key=functools.cmp_to_key(self.entrycmp))", "        super().prepare()\n        self.MergeLinkFiles()\n        self.fileentries.sort(key=functools.cmp_to_key(self.entrycmp))"))
fault("c10-prepare-true-on-hit", "C10", "R10d", (DIR, "            return False  # Did nothing.", "            return True  # Did nothing."))
twin("c10-twin-umn-generated-local", "C10", (UMN, "        if super().prepare():\n", "        generated = super().prepare()\n        if generated:\n"))

# ======================================================================= C11
fault("c11-d5-unfixed", "C11", "R11a", (DIR, "            try:\n                with self.vfs.open(self.cachename, \"rb\") as fp:\n                    self.fileentries = pickle.load(fp)\n            except Exception:\n                # Truncated or corrupt cache file: regenerate the listing.\n                return False\n", "            with self.vfs.open(self.cachename, \"rb\") as fp:\n                self.fileentries = pickle.load(fp)\n"))
fault("c11-narrow-handler", "C11", "R11a", (DIR, "            except Exception:\n                # Truncated or corrupt cache file: regenerate the listing.\n                return False\n", "            except EOFError:\n                return False\n"))
fault("c11-handler-still-hit", "C11", "R11a", (DIR, "            except Exception:\n                # Truncated or corrupt cache file: regenerate the listing.\n                return False\n", "            except Exception:\n                self.fileentries = []\n"))
fault("c11-zip-narrow", "C11", "R11a", (ZIP, "            self.dircache = dircache\n        except Exception:", "            self.dircache = dircache\n        except KeyError:"))
fault("c11-zip-no-rebuild", "C11", "R11a", (ZIP, "            self.dircache = dircache\n        except Exception:\n            self.populate_cache()\n            self.save_cache()", "            self.dircache = dircache\n        except Exception:\n            pass"))
ZIP_LAZY = ("            with shelve.open(cache_fspath, \"r\") as db:\n                dircache = dict(db)\n", "            dircache = self.dircache = shelve.open(cache_fspath, \"r\")\n")
fault("c11-zip-lazy-store-kept", "C11", "R11b", (ZIP,) + ZIP_LAZY)
fault("c11-zip-store-read-outside", "C11", "R11b", (ZIP, "            with shelve.open(cache_fspath, \"r\") as db:\n                dircache = dict(db)\n            if",
      "            db = shelve.open(cache_fspath, \"r\")\n            dircache = {}\n            if"), (ZIP, "            self.dircache = dircache\n        except Exception:\n            self.populate_cache()\n            self.save_cache()\n", "            self.dircache = dircache\n        except Exception:\n            self.populate_cache()\n            self.save_cache()\n            return\n        self.dircache = dict(db)\n"))
twin("c11-twin-zip-items", "C11", (ZIP, "                dircache = dict(db)\n", "                dircache = dict(db.items())\n"))
twin("c11-twin-log", "C11", (DIR, "            except Exception:\n                # Truncated or corrupt cache file: regenerate the listing.\n                return False\n", "            except Exception as e:\n                self.cacheerror = str(e)\n                return False\n"))
twin("c11-twin-tuple", "C11", (DIR, "            except Exception:\n                # Truncated", "            except (Exception, OSError):\n                # Truncated"))

# ======================================================================= C12
fault("c12-d6-unfixed-entries", "C12", "R12a", (DIR, "            except (GopherExceptions.FileNotFound, OSError):\n                # An unservable entry must not take down the whole listing.\n                continue\n", "            except KeyError:\n                continue\n"))
fault("c12-only-fnf", "C12", "R12a", (DIR, "            except (GopherExceptions.FileNotFound, OSError):", "            except GopherExceptions.FileNotFound:"))
fault("c12-initfiles-unguarded", "C12", "R12a", (DIR, "            except OSError:\n                # An unreadable entry must not take down the whole listing.\n                continue\n", "            except KeyError:\n                continue\n"))
fault("c12-handler-breaks", "C12", "R12a", (DIR, "            except (GopherExceptions.FileNotFound, OSError):\n                # An unservable entry must not take down the whole listing.\n                continue\n", "            except (GopherExceptions.FileNotFound, OSError):\n                break\n"))
fault("c12-handler-reraises", "C12", "R12a", (DIR, "            except (GopherExceptions.FileNotFound, OSError):\n                # An unservable entry must not take down the whole listing.\n                continue\n", "            except (GopherExceptions.FileNotFound, OSError):\n                raise\n"))
fault("c12-try-outside-loop", "C12", "R12a", (DIR, "        for file in self.files:\n            # We look up the appropriate handler for this object, and ask\n            # it to give us an entry object.\n            try:\n                handler = handlers.HandlerMultiplexer.getHandler(\n                    self.selectorbase + \"/\" + file,\n                    self.searchrequest,\n                    self.protocol,\n                    self.config,\n                    vfs=self.vfs,\n                )\n                fileentry = handler.getentry()\n                self.prep_entriesappend(file, handler, fileentry)\n            except (GopherExceptions.FileNotFound, OSError):\n                # An unservable entry must not take down the whole listing.\n                continue\n",
                                             "        try:\n            for file in self.files:\n                handler = handlers.HandlerMultiplexer.getHandler(\n                    self.selectorbase + \"/\" + file,\n                    self.searchrequest,\n                    self.protocol,\n                    self.config,\n                    vfs=self.vfs,\n                )\n                fileentry = handler.getentry()\n                self.prep_entriesappend(file, handler, fileentry)\n        except (GopherExceptions.FileNotFound, OSError):\n            pass\n"))
twin("c12-twin-pass", "C12", (DIR, "            except (GopherExceptions.FileNotFound, OSError):\n                # An unservable entry must not take down the whole listing.\n                continue\n", "            except (GopherExceptions.FileNotFound, OSError):\n                pass\n"))
twin("c12-twin-exception", "C12", (DIR, "            except (GopherExceptions.FileNotFound, OSError):", "            except Exception:"))
fault("c12-stat-keyerror", "C12", "R12b", (HM, "    except (OSError, ValueError):", "    except KeyError:"))
fault("c12-stat-unguarded-virtual", "C12", "R12b", (VIRT, "            try:\n                self.statresult = self.vfs.stat(self.selectorreal)\n            except (OSError, ValueError):\n                pass\n", "            self.statresult = self.vfs.stat(self.selectorreal)\n"))
fault("c12-statresult-deref", "C12", "R12b", (FILE, "        return self.statresult and stat.S_ISREG(self.statresult[stat.ST_MODE])\n\n    def getentry(self):\n        if not self.entry:\n            self.entry = gopherentry.GopherEntry(self.selector, self.config)\n            self.entry.populatefromfs", "        return stat.S_ISREG(self.statresult[stat.ST_MODE])\n\n    def getentry(self):\n        if not self.entry:\n            self.entry = gopherentry.GopherEntry(self.selector, self.config)\n            self.entry.populatefromfs"))
twin("c12-twin-bind-none", "C12", (HM, "        # refused by isrequestsecure() below, like any other missing file.\n        pass\n", "        # refused by isrequestsecure() below, like any other missing file.\n        statresult = None\n"))

# ======================================================================= C20
fault("c20-no-except-exception", "C20", "R20a", (SERVER, "        except Exception as e:\n            if GopherExceptions.tracebacks:\n                # Yes, this may be invalid.  Not much else we can do.\n                # traceback.print_exc(file = self.wfile)\n                traceback.print_exc()\n            GopherExceptions.log(e, protohandler, None)\n", ""))
fault("c20-reraise", "C20", "R20a", (SERVER, "                traceback.print_exc()\n            GopherExceptions.log(e, protohandler, None)\n        finally:", "                traceback.print_exc()\n            GopherExceptions.log(e, protohandler, None)\n            raise\n        finally:"))
fault("c20-handle-outside-try", "C20", "R20a", (SERVER, "        try:\n            protohandler.handle()\n        except IOError as e:", "        protohandler.handle()\n        try:\n            pass\n        except IOError as e:"))
fault("c20-no-log", "C20", "R20a", (SERVER, "                traceback.print_exc()\n            GopherExceptions.log(e, protohandler, None)\n        except Exception", "                traceback.print_exc()\n        except Exception"))
fault("c20-log-without-protocol", "C20", "R20a", (SERVER, "                traceback.print_exc()\n            GopherExceptions.log(e, protohandler, None)\n        except Exception", "                traceback.print_exc()\n            GopherExceptions.log(e, None, None)\n        except Exception"))
fault("c20-thread-no-shutdown", "C20", "R20a", (SERVER, "        except Exception:\n            self.handle_error(request, client_address)\n        finally:\n            self.shutdown_request(request)", "        except Exception:\n            self.handle_error(request, client_address)\n        self.shutdown_request(request)"))
fault("c20-thread-no-except", "C20", "R20a", (SERVER, "            request = self.wrap_socket(request)\n            self.finish_request(request, client_address)\n        except Exception:\n            self.handle_error(request, client_address)\n        finally:\n            self.shutdown_request(request)", "            request = self.wrap_socket(request)\n            self.finish_request(request, client_address)\n        finally:\n            self.shutdown_request(request)"))
twin("c20-twin-oserror", "C20", (SERVER, "        except IOError as e:\n            if not (e.errno", "        except OSError as e:\n            if not (e.errno"))
fault("c20-d4-unfixed", "C20", "R20b", (HTTP, "            self.filenotfound(e.strerror or str(e))", "            self.filenotfound(e.args[1])"))
fault("c20-args0-then-1", "C20", "R20b", (GEM, "            self.write_status(51, e.strerror or str(e))", "            self.write_status(51, e.args[0] and e.args[1])"))
twin("c20-twin-msg-local", "C20", (GP, "            self.filenotfound(e.strerror or str(e))", "            msg = e.strerror or str(e)\n            self.filenotfound(msg)"))
twin("c20-twin-args-guarded", "C20", (GP, "            self.filenotfound(e.strerror or str(e))", "            self.filenotfound(e.args[1] if len(e.args) > 1 else str(e))"))
fault("c20-bare-open-attr", "C20", "R20c", (HTML, "        with self.vfs.open(self.getselector(), \"rb\") as fp:\n            while not parser.gotcompletetitle:\n                line = fp.readline()\n                if not line:\n                    break\n                # The PY3 HTML parser doesn't handle surrogateescape\n                parser.feed(line.decode(errors=\"replace\"))\n            parser.close()",
                                         "        self.fp = self.vfs.open(self.getselector(), \"rb\")\n        while not parser.gotcompletetitle:\n            line = self.fp.readline()\n            if not line:\n                break\n            parser.feed(line.decode(errors=\"replace\"))\n        parser.close()"),
      (SERVER, "            if protohandler is not None:\n                protohandler.handler = None\n", "            pass\n"))
fault("c20-d16-unfixed", "C20", "R20c", (MBOX, "        try:\n            super().prepare()\n        finally:\n            self.mbox.close()", "        super().prepare()"),
      (SERVER, "            if protohandler is not None:\n                protohandler.handler = None\n", "            pass\n"))
fault("c20-cycle-not-broken", "C20", "R20c", (SERVER, "            if protohandler is not None:\n                protohandler.handler = None\n", "            pass\n"))
twin("c20-twin-closing", "C20", (GMAP, "        with self.vfs.open(selector, \"rb\") as rfile:", "        import contextlib\n        with contextlib.closing(self.vfs.open(selector, \"rb\")) as rfile:"))
fault("c20-log-no-class", "C20", "R20d", (GEXC, "    exceptionclass = type(exception).__name__", '    exceptionclass = "Error"'))
fault("c20-log-no-address", "C20", "R20d", (GEXC, "        ipaddr = protocol.requesthandler.client_address[0]\n", ""))

# ======================================================================= C04
fault("c04-short-read-exit", "C04", "R04a", (BASE, "                if not len(data):\n                    break", "                if len(data) < 4096:\n                    break"))
fault("c04-skip-space", "C04", "R04a", (BASE, "                fd.write(data)\n", "                if not data.isspace():\n                    fd.write(data)\n"))
fault("c04-text-mode", "C04", "R04a", (BASE, '        with self.open(name, "rb") as rfile:', '        with self.open(name, "r") as rfile:'))
fault("c04-strip", "C04", "R04a", (BASE, "                fd.write(data)\n", "                fd.write(data.replace(b\"\\r\\n\", b\"\\n\"))\n"))
fault("c04-double-write", "C04", "R04a", (BASE, "                fd.write(data)\n", "                fd.write(data)\n                if len(data) < 10:\n                    fd.write(data)\n"))
twin("c04-twin-walrus", "C04", (BASE, "            while 1:\n                data = rfile.read(4096)\n                if not len(data):\n                    break\n                fd.write(data)", "            while data := rfile.read(4096):\n                fd.write(data)"))
twin("c04-twin-not-data", "C04", (BASE, "                if not len(data):\n                    break", "                if not data:\n                    break"))
twin("c04-twin-blocksize", "C04", (BASE, "rfile.read(4096)", "rfile.read(65536)"))
fault("c04-d10-tal", "C04", "R04b", (TAL, "            # The size of the template is not the size of the expanded page.\n            self.entry.size = None\n", ""))
fault("c04-d10-gz", "C04", "R04b", (FILE, "            self.entry.size = None\n", ""))
fault("c04-d10-menu", "C04", "R04b", (GP, '                if handler.isdir():\n                    # A menu is generated: its length is not known in advance.\n                    self.wfile.write(b"+-2\\r\\n")\n                    self.writedir(self.entry, handler.getdirlist())\n                else:\n                    self.wfile.write(f"+{self.entry.getsize(-2)}\\r\\n".encode())\n                    handler.write(self.wfile)',
                                     '                self.wfile.write(f"+{self.entry.getsize(-2)}\\r\\n".encode())\n                if handler.isdir():\n                    self.writedir(self.entry, handler.getdirlist())\n                else:\n                    handler.write(self.wfile)'))
fault("c04-new-transformer", "C04", "R04b", (HTML, "class HTMLFileTitleHandler(FileHandler):\n", "class HTMLFileTitleHandler(FileHandler):\n    def write(self, wfile):\n        with self.vfs.open(self.getselector(), \"rb\") as fp:\n            wfile.write(fp.read().upper())\n\n"))
fault("c04-size-default-zero", "C04", "R04b", (GP, "self.entry.getsize(-2)", "self.entry.getsize(0)"))
twin("c04-twin-reset-helper", "C04", (TAL, "            self.entry.size = None\n\n        return self.entry", "            self._forget_size()\n\n        return self.entry\n\n    def _forget_size(self):\n        self.entry.size = None"))
fault("c04-head-sends-body", "C04", "R04c", (HTTP, '            if self.requestparts[0] == "GET":\n                if handler.isdir():', '            if True:\n                if handler.isdir():'))
fault("c04-head-icon-body", "C04", "R04c", (HTTP, '                if self.requestparts[0] == "HEAD":\n                    return\n', ""))
fault("c04-head-fewer-headers", "C04", "R04c", (HTTP, '            self.wfile.write(f"Content-Type: {mimetype}\\r\\n\\r\\n".encode())', '            if self.requestparts[0] == "GET":\n                self.wfile.write(b"Content-Length: 0\\r\\n")\n            self.wfile.write(f"Content-Type: {mimetype}\\r\\n\\r\\n".encode())'))
twin("c04-twin-not-head", "C04", (HTTP, '            if self.requestparts[0] == "GET":\n                if handler.isdir():', '            if self.requestparts[0] != "HEAD":\n                if handler.isdir():'))
fault("c04-mime-from-name", "C04", "R04d", (GEM, "            mimetype = self.adjust_mimetype(self.entry.getmimetype())", "            mimetype = self.adjust_mimetype(self.entry.getname())"))
fault("c04-mime-field-tainted", "C04", "R04d", (HTML, "            entry.setname(title)\n", "            entry.setname(title)\n            entry.setmimetype(title)\n"))
fault("c04-mime-from-content", "C04", "R04d", (GMAP, "                    entry.name = args[0][1:]\n", "                    entry.name = args[0][1:]\n                    entry.mimetype = args[0][1:]\n"))

# ======================================================================= C15
fault("c15-info-own-renderer", "C15", "R15a", (GP, 'return "+INFO: " + GopherProtocol.renderobjinfo(self, entry)', 'return "+INFO: " + self.renderobjinfo(entry)'))
fault("c15-info-prefix", "C15", "R15a", (GP, 'return "+INFO: " + GopherProtocol.renderobjinfo(self, entry)', 'return "+INFO " + GopherProtocol.renderobjinfo(self, entry)'))
twin("c15-twin-super", "C15", (GP, 'return "+INFO: " + GopherProtocol.renderobjinfo(self, entry)', 'return "+INFO: " + super().renderobjinfo(entry)'))
fault("c15-missing-renderer", "C15", "R15b", (GP, "    def getadminblock(self, entry):", "    def getadministratorblock(self, entry):"))
fault("c15-url-renderer-missing", "C15", "R15b", (GP, "    def geturlblock(self, entry):", "    def geturl_block(self, entry):"))
fault("c15-no-ea-blocks", "C15", "R15b", (GP, '        return ["+INFO", "+ADMIN", "+VIEWS"] + [\n            "+" + x for x in list(entry.geteadict().keys())\n        ]', '        return ["+INFO", "+ADMIN", "+VIEWS"]'))
fault("c15-length-menu", "C15", "R15c", (GP, '                    self.wfile.write(b"+-2\\r\\n")\n                    self.writedir', '                    self.wfile.write(f"+{self.entry.getsize(-2)}\\r\\n".encode())\n                    self.writedir'))
fault("c15-no-prefix", "C15", "R15d", (GP, '                        " " + x + "\\r\\n"', '                        x + "\\r\\n"'))
fault("c15-sidecar-no-rstrip", "C15", "R15e", (GE, '"\\n".join([x.rstrip() for x in rfile.readlines(20480)])', '"".join(rfile.readlines(20480))'))
fault("c15-sidecar-binary", "C15", "R15e", (GE, '                    selector + extension, "r", errors="surrogateescape"', '                    selector + extension, "rb"'))

# ======================================================================= C05
fault("c05-encoder-strict", "C05", "R05a", (HTTP, 'url = urllib.parse.quote(entry.getselector(), errors="surrogateescape")', "url = urllib.parse.quote(entry.getselector().encode(errors=\"replace\"))"))
fault("c05-decoder-default", "C05", "R05a", (GEM, '        self.selector = urllib.parse.unquote(selector, errors="surrogateescape")', "        self.selector = urllib.parse.unquote(selector)"))
fault("c05-safe-question", "C05", "R05a", (SPAR, "            url = urllib.parse.quote(selector)\n            url = url or \"/\"  # Use \"/\" for relative links to the root URL\n        else:", "            url = urllib.parse.quote(selector, safe=\"/? \")\n            url = url or \"/\"  # Use \"/\" for relative links to the root URL\n        else:"))
fault("c05-no-decode", "C05", "R05a", (SPAR, '        self.selector = urllib.parse.unquote(path, errors="surrogateescape")', "        self.selector = path"))
fault("c05-double-decode", "C05", "R05a", (HTTP, '        self.selector = self.slashnormalize(self.selector)\n        self.formvals', '        self.selector = urllib.parse.unquote(self.selector, errors="surrogateescape")\n        self.selector = self.slashnormalize(self.selector)\n        self.formvals'))
fault("c05-quote-plus", "C05", "R05a", (HTTP, 'url = urllib.parse.quote(entry.getselector(), errors="surrogateescape")', 'url = urllib.parse.quote_plus(entry.getselector(), errors="surrogateescape")'))
twin("c05-twin-explicit-utf8", "C05", (HTTP, 'url = urllib.parse.quote(entry.getselector(), errors="surrogateescape")', 'url = urllib.parse.quote(entry.getselector(), encoding="utf-8", errors="surrogateescape")'))
fault("c05-wap-literal-prefix", "C05", "R05b", (WAP, "            url = self.waptop + url", '            url = "/wap" + url'))
fault("c05-wap-other-option", "C05", "R05b", (WAP, "        self.waptop = waptop\n", '        self.waptop = self.config.get("pygopherd", "servername")\n'))
fault("c05-gemini-literal-prefix", "C05", "R05b", (GEM, "                url = self.query_prefix + url", '                url = "/GEMINI-SEARCH" + url'))
fault("c05-virtual-sep", "C05", "R05c", (VIRT, 'return self.getselector() + "|" + args', 'return self.getselector() + "!" + args'))
twin("c05-twin-virtual-question", "C05", (VIRT, 'return self.getselector() + "|" + args', 'return self.getselector() + "?" + args'))
fault("c05-child-selector-basename", "C05", "R05d", (DIR, '                    self.selectorbase + "/" + file,\n                    self.searchrequest,', '                    "/" + file,\n                    self.searchrequest,'))
fault("c05-child-other-vfs", "C05", "R05d", (DIR, "                    vfs=self.vfs,\n                )\n                fileentry", "                )\n                fileentry"))
fault("c05-mbox-flag-mismatch", "C05", "R05d", (MBOX, 'class MBoxFolderHandler(FolderHandler):', 'class MBoxFolderHandler(FolderHandler):\n    def getargflag(self):\n        return "/MBOX-MSG/"\n\n    def _unused(self):\n        pass\n'), (MBOX, '        super().prepare()\n        finally:\n            self.mbox.close()\n\n    def getargflag(self):\n        return "/MBOX-MESSAGE/"', '        super().prepare()\n        finally:\n            self.mbox.close()'))
fault("c05-mbox-from-zero", "C05", "R05d", (MBOX, "enumerate(self.mbox, start=1)", "enumerate(self.mbox)"))

# ======================================================================= C06
fault("c06-override-writedir", "C06", "R06a", (GEM, "    def renderdirend(self, entry):", "    def writedir(self, entry, dirlist):\n        for direntry in dirlist:\n            if direntry.gettype() != \"i\":\n                self.wfile.write(self.renderobjinfo(direntry).encode())\n\n    def renderdirend(self, entry):"))
fault("c06-skip-info", "C06", "R06a", (PBASE, "        for direntry in dirlist:\n            self.wfile.write(", "        for direntry in dirlist:\n            if direntry.gettype() == \"i\" and self.groksabstract():\n                continue\n            self.wfile.write("))
fault("c06-render-conditional", "C06", "R06a", (PBASE, "        for direntry in dirlist:\n            self.wfile.write(\n                self.renderobjinfo(direntry).encode(errors=\"surrogateescape\")\n            )", "        for direntry in dirlist:\n            if direntry.getname():\n                self.wfile.write(\n                    self.renderobjinfo(direntry).encode(errors=\"surrogateescape\")\n                )"))
fault("c06-own-loop", "C06", "R06a", (SPAR, "            self.writedir(self.entry, handler.getdirlist())", "            for e in handler.getdirlist():\n                self.wfile.write(self.renderobjinfo(e).encode())"))
twin("c06-twin-render-local", "C06", (PBASE, "            self.wfile.write(\n                self.renderobjinfo(direntry).encode(errors=\"surrogateescape\")\n            )", "            line = self.renderobjinfo(direntry)\n            self.wfile.write(line.encode(errors=\"surrogateescape\"))"))
fault("c06-skip-normalize", "C06", "R06b", (GEM, "        self.selector = self.slashnormalize(self.selector)\n", ""))
fault("c06-normalize-no-lead", "C06", "R06b", (PBASE, '        if len(selector) == 0 or selector[0] != "/":\n            selector = "/" + selector\n', '        if len(selector) and selector[0] != "/":\n            selector = "/" + selector\n'))
twin("c06-twin-normalize-helper", "C06", (SPAR, '        self.selector = urllib.parse.unquote(path, errors="surrogateescape")\n        self.selector = self.slashnormalize(self.selector)', '        decoded = urllib.parse.unquote(path, errors="surrogateescape")\n        self.selector = self.slashnormalize(decoded)'))
fault("c06-d11-unfixed", "C06", "R06c", (HTTP, '            self.formvals = urllib.parse.parse_qs(\n                splitted[1], errors="surrogateescape"\n            )', "            self.formvals = urllib.parse.parse_qs(splitted[1])"))
fault("c06-gemini-query-replace", "C06", "R06c", (GEM, '        self.searchrequest = urllib.parse.unquote(\n            searchrequest, errors="surrogateescape"\n        )', "        self.searchrequest = urllib.parse.unquote(searchrequest)"))
fault("c06-spartan-body-strict", "C06", "R06c", (SPAR, '            self.searchrequest = data.decode(errors="surrogateescape")', "            self.searchrequest = data.decode(errors=\"replace\")"))
fault("c06-request-line-latin1", "C06", "R06c", (SERVER, '        request = self.rfile.readline().decode(errors="surrogateescape")', '        request = self.rfile.readline().decode("latin-1")'))
fault("c06-menu-type-wrong", "C06", "R06d", (GEM, '        if mimetype == "application/gopher-menu":\n            return "text/gemini"\n        return mimetype\n\n    def renderobjinfo(self, entry):\n        urlmatch', '        if mimetype == "application/gopher-menu":\n            return "text/plain"\n        return mimetype\n\n    def renderobjinfo(self, entry):\n        urlmatch'))
fault("c06-adjust-not-total", "C06", "R06d", (HTTP, '        if mimetype is None:\n            return "text/plain"\n        if mimetype == "application/gopher-menu":\n            return "text/html"', '        if mimetype == "application/gopher-menu":\n            return "text/html"'))

# ======================================================================= C07
fault("c07-no-sort", "C07", "R07a", (DIR, "        # Sort the list.\n        self.files.sort()\n", ""))
fault("c07-sort-before-fill", "C07", "R07a", (DIR, "        self.prep_initfiles()\n\n        # Sort the list.\n        self.files.sort()\n", "        self.files = []\n        self.files.sort()\n        self.prep_initfiles()\n"))
twin("c07-twin-sorted-iter", "C07", (DIR, "        # Sort the list.\n        self.files.sort()\n", ""), (DIR, "        for file in self.files:\n            # We look up", "        for file in sorted(self.files):\n            # We look up"))
fault("c07-d12-unfixed", "C07", "R07b", (DIR, "dirfiles = sorted(self.vfs.listdir(self.getselector()))", "dirfiles = self.vfs.listdir(self.getselector())"))
twin("c07-twin-sort-inplace", "C07", (DIR, "dirfiles = sorted(self.vfs.listdir(self.getselector()))", "dirfiles = self.vfs.listdir(self.getselector())\n        dirfiles.sort()"))
fault("c07-ignorepatt-in-test", "C07", "R07c", (FILE, '        return self.statresult and stat.S_ISREG(self.statresult[stat.ST_MODE])\n\n    def getentry(self):\n        if not self.entry:\n            self.entry = gopherentry.GopherEntry(self.selector, self.config)\n            self.entry.populatefromfs', '        if re.search(self.config.get("handlers.dir.DirHandler", "ignorepatt"), self.selector):\n            return False\n        return self.statresult and stat.S_ISREG(self.statresult[stat.ST_MODE])\n\n    def getentry(self):\n        if not self.entry:\n            self.entry = gopherentry.GopherEntry(self.selector, self.config)\n            self.entry.populatefromfs'))
fault("c07-dotdir-listed", "C07", "R07d", (UMN, '                    return False  # A "dot dir" -- ignore.', '                    return True  # A "dot dir" -- ignore.'))
twin("c07-twin-dot-early", "C07", (UMN, "        if super().prep_initfiles_canaddfile(ignorepatt, pattern, file):", "        if file[0] == \".\" and self.vfs.isdir(self.selectorbase + \"/\" + file):\n            return False\n        if super().prep_initfiles_canaddfile(ignorepatt, pattern, file):"))
fault("c07-cmp-by-selector", "C07", "R07e", (UMN, "            return cmp(entry1.name, entry2.name)", "            return cmp(entry1.selector, entry2.selector)"))
fault("c07-append-twice", "C07", "R07f", (DIR, "                    self.files.append(file)\n", "                    self.files.append(file)\n                    if file.endswith(\".txt\"):\n                        self.files.append(file)\n"))
fault("c07-append-unfiltered", "C07", "R07f", (DIR, "                if self.prep_initfiles_canaddfile(\n                    ignorepatt, self.selectorbase + \"/\" + file, file\n                ):\n                    self.files.append(file)", "                self.prep_initfiles_canaddfile(\n                    ignorepatt, self.selectorbase + \"/\" + file, file\n                )\n                self.files.append(file)"))
fault("c07-filter-on-name-only", "C07", "R07f", (DIR, '                    ignorepatt, self.selectorbase + "/" + file, file\n', '                    ignorepatt, file, file\n'))

# ======================================================================= C08
fault("c08-diffsign-swapped", "C08", "R08a", (UMN, "        if e1num > e2num:\n            return -1\n        else:\n            return 1", "        if e1num > e2num:\n            return 1\n        else:\n            return -1"))
fault("c08-names-descending", "C08", "R08a", (UMN, "            return cmp(entry1.name, entry2.name)", "            return cmp(entry2.name, entry1.name)"))
fault("c08-numeric-descending", "C08", "R08a", (UMN, "            return cmp(e1num, e2num)", "            return cmp(e2num, e1num)"))
fault("c08-cmp-broken", "C08", "R08a", (UMN, "    return (a > b) - (a < b)", "    return (a > b) - (a <= b)"))
fault("c08-sgn-zero", "C08", "R08a", (UMN, "        if a == 0:\n            return 0\n        if a < 0:", "        if a == 0:\n            return 1\n        if a < 0:"))
twin("c08-twin-inline-sgn", "C08", (UMN, "        if self.sgn(e1num) == self.sgn(e2num):", "        if ((e1num > 0) - (e1num < 0)) == ((e2num > 0) - (e2num < 0)):"))
fault("c08-sort-by-name", "C08", "R08b", (UMN, "self.fileentries.sort(key=functools.cmp_to_key(self.entrycmp))", "self.fileentries.sort(key=lambda e: e.name or \"\")"))
fault("c08-sort-before-merge", "C08", "R08b", (UMN, "            self.MergeLinkFiles()\n            self.fileentries.sort(key=functools.cmp_to_key(self.entrycmp))", "            self.fileentries.sort(key=functools.cmp_to_key(self.entrycmp))\n            self.MergeLinkFiles()"))

# ======================================================================= C14
fault("c14-unguarded-rootpath", "C14", "R14a", (BASE, "        if not rootpath:\n            rootpath = self.config.get(\"pygopherd\", \"root\")", "        rootpath = self.config.get(\"pygopherd\", \"root\") + \"\""))
fault("c14-handlers-append", "C14", "R14a", (URL, "        handlerlist = [\n            x for x in handlers.HandlerMultiplexer.handlers if x != URLTypeRewriter\n        ]", "        handlers.HandlerMultiplexer.handlers.remove(URLTypeRewriter)\n        handlerlist = handlers.HandlerMultiplexer.handlers"))
fault("c14-request-counter", "C14", "R14a", (HM, "    global handlers, rootpath\n    init_default_handlers(config)\n", "    global handlers, rootpath, last_selector\n    last_selector = selector\n    init_default_handlers(config)\n"))
fault("c14-mimetypes-on-request", "C14", "R14a", (GE, "        mimetype, encoding = mimetypes.guess_type(self.selector, strict=False)\n", "        mimetypes.types_map.update({\".gmi\": \"text/gemini\"})\n        mimetype, encoding = mimetypes.guess_type(self.selector, strict=False)\n"))
fault("c14-class-level-list", "C14", "R14a", (GMAP, 'class BuckGophermapHandler(BaseHandler):\n    """Bucktooth selector handler.  Adheres to the specification\n    at gopher://gopher.floodgap.com:70/0/buck/dbrowse%3Ffaquse%201"""\n', 'class BuckGophermapHandler(BaseHandler):\n    """Bucktooth selector handler."""\n\n    entries = []\n'), (GMAP, "        self.entries = []\n\n        selectorbase", "        selectorbase"))
twin("c14-twin-is-none", "C14", (BASE, "        if not rootpath:\n", "        if rootpath is None:\n"))
fault("c14-protocol-cached", "C14", "R14", (PMUX, "        ptry = protocol(request, server, requesthandler, rfile, wfile, config)\n", "        ptry = protocol(request, server, requesthandler, rfile, wfile, config)\n        server.lastprotocol = ptry\n"))
fault("c14-header-cache-on-server", "C14", "R14b", (HTTP, "        self.requesthandler.pygopherd_http_slurped = self.httpheaders", "        self.server.pygopherd_http_slurped = self.httpheaders"))
fault("c14-child-returns", "C14", "R14c", (SERVER, "                finally:\n                    os._exit(status)", "                finally:\n                    pass"))
fault("c14-no-active-children", "C14", "R14c", (SERVER, "            self.active_children.add(pid)\n", ""))
fault("c14-thread-no-finally", "C14", "R14c", (SERVER, "        except Exception:\n            self.handle_error(request, client_address)\n        finally:\n            self.shutdown_request(request)", "        except ValueError:\n            self.handle_error(request, client_address)\n        finally:\n            self.shutdown_request(request)"))

# ======================================================================= C17
fault("c17-no-handler", "C17", "R17a", (TALPY, "\t\tself.commandHandler [TAL_OMITTAG] = self.cmdOmitTag\n", ""))
fault("c17-new-opcode", "C17", "R17a", (TALPY, "\t\treturn (TAL_OMITTAG, expression)", "\t\treturn (METAL_FILL_SLOT, expression)"))
fault("c17-map-unhandled", "C17", "R17a", (TALPY, "\t\tself.commandHandler [TAL_REPLACE] = self.compileCmdReplace\n", ""))
fault("c17-swap-priority", "C17", "R17b", (TALPY, "TAL_CONDITION = 2\n", "TAL_CONDITION = 3\n"), (TALPY, "TAL_REPEAT = 3\n", "TAL_REPEAT = 2\n"))
fault("c17-no-sort", "C17", "R17b", (TALPY, "\t\t# Sort the tags by priority\n\t\tfoundTALAtts.sort()\n", ""))
twin("c17-twin-sorted", "C17", (TALPY, "\t\tfoundTALAtts.sort()\n\t\t\n\t\t# We handle the METAL before the TAL\n\t\tallCommands = foundMETALAtts + foundTALAtts", "\t\t\n\t\t# We handle the METAL before the TAL\n\t\tallCommands = foundMETALAtts + sorted(foundTALAtts)"))
fault("c17-repeat-wrong-slot", "C17", "R17c", (TALPY, "\t\t\t\tself.outputTag = 0\n\t\t\t\tself.programCounter = self.symbolTable [args[2]]\n\t\t\t\t# Restore the state of repeatAttributesCopy", "\t\t\t\tself.outputTag = 0\n\t\t\t\tself.programCounter = self.symbolTable [args[1]]\n\t\t\t\t# Restore the state of repeatAttributesCopy"))
fault("c17-content-symbol-moved", "C17", "R17c", (TALPY, "\t\treturn (TAL_CONTENT, (replaceFlag, structureFlag, express, self.endTagSymbol))", "\t\treturn (TAL_CONTENT, (replaceFlag, structureFlag, self.endTagSymbol, express))"))
fault("c17-symbol-after-endscope", "C17", "R17c", (TALPY, "\t\t\t\t\tself.symbolLocationTable [endTagSymbol] = len (self.commandList)\n\t\t\t\t\t\n\t\t\t\t\t# We need a \"close scope and tag\" command\n\t\t\t\t\tself.addCommand((TAL_ENDTAG_ENDSCOPE, (tag[0], omitTagFlag, singletonTag)))", "\t\t\t\t\tself.addCommand((TAL_ENDTAG_ENDSCOPE, (tag[0], omitTagFlag, singletonTag)))\n\t\t\t\t\tself.symbolLocationTable [endTagSymbol] = len (self.commandList)"))
twin("c17-twin-unpack-args", "C17", (TALPY, "\t\tresult = self.context.evaluate (args[0], self.originalAttributes)\n\t\t#~ if (result is None or (not result)):", "\t\texpression = args[0]\n\t\tresult = self.context.evaluate (expression, self.originalAttributes)\n\t\t#~ if (result is None or (not result)):"))
fault("c17-scope-permuted", "C17", "R17d", (TALPY, "\t\tself.scopeStack.append ((self.movePCForward\n\t\t\t\t\t\t\t\t,self.movePCBack\n\t\t\t\t\t\t\t\t,self.outputTag", "\t\tself.scopeStack.append ((self.movePCBack\n\t\t\t\t\t\t\t\t,self.movePCForward\n\t\t\t\t\t\t\t\t,self.outputTag"))
fault("c17-scope-field-dropped", "C17", "R17d", (TALPY, "\t\t\t\t\t\t\t\t,self.tagContent\n\t\t\t\t\t\t\t\t,self.localVarsDefined))", "\t\t\t\t\t\t\t\t,self.tagContent))"))
fault("c17-no-progress", "C17", "R17e", (TALPY, "\t\tif (result is not None and result):\n\t\t\t# Turn tag output off\n\t\t\tself.outputTag = 0\n\t\tself.programCounter += 1", "\t\tif (result is not None and result):\n\t\t\t# Turn tag output off\n\t\t\tself.outputTag = 0\n\t\t\treturn\n\t\tself.programCounter += 1"))
twin("c17-twin-pc-local", "C17", (TALPY, "\tdef cmdNoOp (self, command, args):\n\t\tself.programCounter += 1", "\tdef cmdNoOp (self, command, args):\n\t\tnxt = self.programCounter + 1\n\t\tself.programCounter = nxt"))
fault("c17-d14-unfixed", "C17", "R17f", (TALES, "if (isinstance (val, ContextVariable)): result = val.rawValue()", "if (isinstance (val, ContextVariable)): result = val.realValue"))
fault("c17-d14b-unfixed", "C17", "R17g", (TALPY, '\t\t\telif (attProps[0] == "text"):', '\t\t\telif (attProps[1] == "text"):'))

# ======================================================================= C18
fault("c18-text-unescaped", "C18", "R18a", (TALPY, "\t\t\t\tif (isinstance (resultVal, str)):\n\t\t\t\t\tself.file.write (html.escape (resultVal, quote=False))", "\t\t\t\tif (isinstance (resultVal, str)):\n\t\t\t\t\tself.file.write (resultVal)"))
fault("c18-structure-arms-swapped", "C18", "R18a", (TALPY, "\t\t\tcontentType, resultVal = self.tagContent\n\t\t\tif (contentType):", "\t\t\tcontentType, resultVal = self.tagContent\n\t\t\tif (not contentType):"))
fault("c18-attr-unescaped", "C18", "R18a", (TALPY, "\t\t\tresult.append ('=\"')\n\t\t\tresult.append (html.escape (attValue, quote=1))\n\t\t\tresult.append ('\"')\n\t\tif (singletonFlag):\n\t\t\tresult.append (\" />\")\n\t\telse:\n\t\t\tresult.append (\">\")\n\t\treturn \"\".join (result)\n\t\n\tdef initialise", "\t\t\tresult.append ('=\"')\n\t\t\tresult.append (attValue)\n\t\t\tresult.append ('\"')\n\t\tif (singletonFlag):\n\t\t\tresult.append (\" />\")\n\t\telse:\n\t\t\tresult.append (\">\")\n\t\treturn \"\".join (result)\n\t\n\tdef initialise"))
fault("c18-attr-noquote", "C18", "R18a", (TALPY, "\t\t\t\tresult.append (html.escape (attValue, quote=1))\n\t\t\t\tresult.append ('\"')\n\t\tif (singletonFlag):", "\t\t\t\tresult.append (html.escape (attValue, quote=0))\n\t\t\t\tresult.append ('\"')\n\t\tif (singletonFlag):"))
twin("c18-twin-escape-local", "C18", (TALPY, "\t\t\t\tif (isinstance (resultVal, str)):\n\t\t\t\t\tself.file.write (html.escape (resultVal, quote=False))", "\t\t\t\tif (isinstance (resultVal, str)):\n\t\t\t\t\tself.file.write (html.escape (resultVal))"))
fault("c18-python-ungated", "C18", "R18b", (TALES, "\t\tif (not self.allowPythonPath):\n\t\t\tself.log.warning (\"Parameter allowPythonPath is false.  NOT Evaluating python expression %s\" % expr)\n\t\t\treturn self.false\n", ""))
fault("c18-python-gate-inverted", "C18", "R18b", (TALES, "\t\tif (not self.allowPythonPath):", "\t\tif (self.allowPythonPath):"))
fault("c18-eval-in-string", "C18", "R18b", (TALES, "\t\t\t\t\t\t\t\t\tpathResult = self.evaluate (path)\n\t\t\t\t\t\t\t\texcept PathNotFoundException as e:", "\t\t\t\t\t\t\t\t\tpathResult = eval (path) if path.startswith ('!') else self.evaluate (path)\n\t\t\t\t\t\t\t\texcept PathNotFoundException as e:"))
fault("c18-flag-forced", "C18", "R18b", (TALES, "\t\tself.allowPythonPath = allowPythonPath\n", "\t\tself.allowPythonPath = 1\n"))
fault("c18-handler-ignores-option", "C18", "R18b", (TAL, "context = simpleTALES.Context(allowPythonPath=self.allowpythonpath)", "context = simpleTALES.Context(allowPythonPath=1)"))
twin("c18-twin-gate-nested", "C18", (TALES, "\t\tif (not self.allowPythonPath):\n\t\t\tself.log.warning (\"Parameter allowPythonPath is false.  NOT Evaluating python expression %s\" % expr)\n\t\t\treturn self.false\n", "\t\tif (self.allowPythonPath):\n\t\t\tpass\n\t\telse:\n\t\t\treturn self.false\n"))
fault("c18-no-poplocals", "C18", "R18c", (TALPY, "\t\tself.localVarsDefined = foundLocals\n", "\t\tself.localVarsDefined = 0\n"))
fault("c18-pop-unconditional", "C18", "R18c", (TALPY, "\t\tif (self.localVarsDefined):\n\t\t\tself.context.popLocals()\n", "\t\tself.context.popLocals()\n"))
fault("c18-flag-not-saved", "C18", "R18c", (TALPY, "\t\t\t\t\t\t\t\t,self.tagContent\n\t\t\t\t\t\t\t\t,self.localVarsDefined))", "\t\t\t\t\t\t\t\t,self.tagContent))"), (TALPY, "self.repeatVariable,self.tagContent,self.localVarsDefined = self.scopeStack.pop()", "self.repeatVariable,self.tagContent = self.scopeStack.pop()"))
twin("c18-twin-flag-eq1", "C18", (TALPY, "\t\tif (self.localVarsDefined):\n\t\t\tself.context.popLocals()\n", "\t\tif (self.localVarsDefined == 1):\n\t\t\tself.context.popLocals()\n"))

twin("c05-twin-child-fstring", "C05", (DIR, '                    self.selectorbase + "/" + file,\n                    self.searchrequest,', '                    f"{self.selectorbase}/{file}",\n                    self.searchrequest,'))
twin("c07-twin-filter-fstring", "C07", (DIR, '                    ignorepatt, self.selectorbase + "/" + file, file\n', '                    ignorepatt, f"{self.selectorbase}/{file}", file\n'))
twin("c06-twin-writedir-local-entry", "C06", (SPAR, "            self.writedir(self.entry, handler.getdirlist())", "            entry = self.entry\n            self.writedir(entry, handler.getdirlist())"))

twin("c07-twin-initfiles-comprehension", "C07", (DIR, """        for file in dirfiles:
            try:
                if self.prep_initfiles_canaddfile(
                    ignorepatt, self.selectorbase + "/" + file, file
                ):
                    self.files.append(file)
            except OSError:
                # An unreadable entry must not take down the whole listing.
                continue
""", """        self.files = [
            file
            for file in dirfiles
            if self.prep_initfiles_canaddfile(ignorepatt, self.selectorbase + "/" + file, file)
        ]
"""), note="comprehension form is equivalent for C07 (it does break C12: no per-entry containment)")
fault("c12-initfiles-comprehension", "C12", "R12a", (DIR, """        for file in dirfiles:
            try:
                if self.prep_initfiles_canaddfile(
                    ignorepatt, self.selectorbase + "/" + file, file
                ):
                    self.files.append(file)
            except OSError:
                # An unreadable entry must not take down the whole listing.
                continue
""", """        self.files = [
            file
            for file in dirfiles
            if self.prep_initfiles_canaddfile(ignorepatt, self.selectorbase + "/" + file, file)
        ]
"""))
fault("c10-getstate-truthy-filter", "C10", "R10e", (GE, "    def populatefromvfs(self, vfs: VFS_Real, selector: str) -> None:", "    def __getstate__(self):\n        return {k: v for k, v in self.__dict__.items() if v}\n\n    def populatefromvfs(self, vfs: VFS_Real, selector: str) -> None:"))
twin("c10-twin-getstate-drop-config", "C10", (GE, "    def populatefromvfs(self, vfs: VFS_Real, selector: str) -> None:", "    def __getstate__(self):\n        state = dict(self.__dict__)\n        state.pop(\"config\", None)\n        return state\n\n    def populatefromvfs(self, vfs: VFS_Real, selector: str) -> None:"),
     (DIR, "            self.fromcache = True\n            return True", "            for entry in self.fileentries:\n                entry.setconfig(self.config)\n            self.fromcache = True\n            return True"))
fault("c04-wap-splitlines", "C04", "R04e", (WAP, "        while 1:\n            line = fakefile.readline().decode(errors=\"surrogateescape\")\n            if not len(line):\n                break\n            line = line.rstrip()", "        for line in fakefile.getvalue().decode(errors=\"surrogateescape\").splitlines():\n            line = line.rstrip()"))
fault("c05-quote-helper-skips", "C05", "R05a", (HTTP, '            url = urllib.parse.quote(entry.getselector(), errors="surrogateescape")', "            url = self.quoteselector(entry.getselector())"),
      (HTTP, "    def getrenderstr(self, entry, url):", "    def quoteselector(self, selector):\n        if \"%\" in selector:\n            return selector\n        return urllib.parse.quote(selector, errors=\"surrogateescape\")\n\n    def getrenderstr(self, entry, url):"))
twin("c05-twin-quote-helper", "C05", (HTTP, '            url = urllib.parse.quote(entry.getselector(), errors="surrogateescape")', "            url = self.quoteselector(entry.getselector())"),
     (HTTP, "    def getrenderstr(self, entry, url):", "    def quoteselector(self, selector):\n        return urllib.parse.quote(selector, errors=\"surrogateescape\")\n\n    def getrenderstr(self, entry, url):"))
fault("c06-gemini-decode-before-split", "C06", "R06c", (GEM, "            url_parts = urllib.parse.urlparse(self.request.strip())", "            url_parts = urllib.parse.urlparse(urllib.parse.unquote(self.request.strip(), errors=\"surrogateescape\"))"))
fault("c03-memo-cache", "C03", "R03d", (DIR, "class DirHandler(BaseHandler):\n", "_memo = {}\n\n\nclass DirHandler(BaseHandler):\n"), (DIR, "        self.prep_entries()\n        return True  # Did something.", "        self.prep_entries()\n        _memo[self.selector] = self.fileentries\n        return True  # Did something."))

fault("c03-d19-unfixed", "C03", "R03f", (HM, "    except (OSError, ValueError):", "    except OSError:"))
fault("c01-d19-unfixed", "C01", "R01k", (VIRT, "            except (OSError, ValueError):", "            except OSError:"))
fault("c03-d20-mbox-unfixed", "C03", "R03b", (MBOX, "        try:\n            message_num = int(match.groups()[0])\n        except ValueError:\n            # More digits than int() accepts (sys.int_info.str_digits_check_threshold)\n            return False", "        message_num = int(match.groups()[0])"))
fault("c03-d20-spartan-unfixed", "C03", "R03b", (SPAR, "            and parts[2].isdigit()\n            and len(parts[2]) <= 18", "            and parts[2].isdigit()"))
twin("c03-twin-mbox-bounded-regex", "C03", (MBOX, "        try:\n            message_num = int(match.groups()[0])\n        except ValueError:\n            # More digits than int() accepts (sys.int_info.str_digits_check_threshold)\n            return False", "        message_num = int(match.groups()[0])"),
     (MBOX, 'pattern = "^" + self.getargflag() + r"(\\d+)$"', 'pattern = "^" + self.getargflag() + r"(\\d{1,9})$"'))
fault("c03-d21-unfixed", "C03", "R03g", (GEM, '        meta = re.sub(r"[\\r\\n]+", " ", meta)\n', ""))
twin("c03-twin-status-replace", "C03", (SPAR, '        meta = re.sub(r"[\\r\\n]+", " ", meta)\n', '        meta = meta.replace("\\r", " ").replace("\\n", " ")\n'))
fault("c03-status-only-lf", "C03", "R03g", (SPAR, '        meta = re.sub(r"[\\r\\n]+", " ", meta)\n', '        meta = meta.replace("\\n", " ")\n'))
fault("c06-d22-unfixed", "C06", "R06b", (PBASE, '        if len(selector) and selector[-1] == "/" and selector[-2:-1] != "/":', '        if len(selector) and selector[-1] == "/":'))
twin("c06-twin-normalize-endswith", "C06", (PBASE, '        if len(selector) and selector[-1] == "/" and selector[-2:-1] != "/":', '        if selector.endswith("/") and not selector.endswith("//"):'))

fault("c16-link-clamped-at-root", "C16", "R16e", (ZIP, '                    dest = os.path.join(os.path.dirname(item["pathname"]), item["dest"])\n                    dest = os.path.normpath(dest)', '                    dest = os.path.normpath(os.path.join("/", os.path.dirname(item["pathname"]), item["dest"])).lstrip("/")'))
twin("c16-twin-link-oneliner", "C16", (ZIP, '                    dest = os.path.join(os.path.dirname(item["pathname"]), item["dest"])\n                    dest = os.path.normpath(dest)', '                    dest = os.path.normpath(os.path.join(os.path.dirname(item["pathname"]), item["dest"]))'))
fault("c17-repeat-map-shared", "C17", "R17h", (TALES, "\t\tself.repeatStack.append (self.repeatMap)\n\t\tself.repeatMap = self.repeatMap.copy()\n", ""), (TALES, "\t\tself.repeatMap = self.repeatStack.pop()\n", "\t\tself.repeatMap.pop (name, None)\n"))
fault("c18-locals-not-copied", "C18", "R18c", (TALES, "\t\tself.locals = self.locals.copy()\n", ""))
twin("c18-twin-locals-dict-copy", "C18", (TALES, "\t\tself.locals = self.locals.copy()\n", "\t\tself.locals = dict (self.locals)\n"))

twin("c20-twin-log-class-attr", "C20", (GEXC, "    exceptionclass = type(exception).__name__", "    exceptionclass = exception.__class__.__name__"))
twin("c10-twin-cachename-local", "C10", (DIR, "            statval = self.vfs.stat(self.cachename)\n", "            name = self.cachename\n            statval = self.vfs.stat(name)\n"))

# --- C08 merge / .cap / Host=+ (R08c-R08f)
_HIDE = '''                    hidden = fileentriesdict[linkentry.selector]
                    if hidden in self.fileentries:
                        self.fileentries.remove(hidden)
'''
fault("c08-hide-twice-raises", "C08", "R08c", (UMN, _HIDE, "                    self.fileentries.remove(fileentriesdict[linkentry.selector])\n"))
fault("c08-hide-pops-index", "C08", "R08c", (UMN, _HIDE, "                    hidden = fileentriesdict.pop(linkentry.selector)\n                    if hidden in self.fileentries:\n                        self.fileentries.remove(hidden)\n"))
fault("c08-hide-by-selector", "C08", "R08c", (UMN, _HIDE, "                    self.fileentries = [e for e in self.fileentries if e.selector != linkentry.selector]\n"))
fault("c08-merge-also-appends", "C08", "R08c", (UMN, "                    self.mergeentries(fileentriesdict[linkentry.selector], linkentry)\n", "                    self.mergeentries(fileentriesdict[linkentry.selector], linkentry)\n                    self.fileentries.append(linkentry)\n"))
fault("c08-nomerge-dropped", "C08", "R08c", (UMN, "            if not linkentry.getneedsmerge():\n                self.fileentries.append(linkentry)\n                continue", "            if not linkentry.getneedsmerge():\n                continue"))
fault("c08-merge-wrong-way", "C08", "R08c", (UMN, "self.mergeentries(fileentriesdict[linkentry.selector], linkentry)", "self.mergeentries(linkentry, fileentriesdict[linkentry.selector])"))
twin("c08-twin-hide-try", "C08", (UMN, _HIDE, "                    try:\n                        self.fileentries.remove(fileentriesdict[linkentry.selector])\n                    except ValueError:\n                        pass\n"))
twin("c08-twin-index-comprehension", "C08", (UMN, "        fileentriesdict = {}\n        for entry in self.fileentries:\n            fileentriesdict[entry.selector] = entry\n", "        fileentriesdict = {entry.selector: entry for entry in self.fileentries}\n"))
twin("c08-twin-merged-append-branches", "C08", (UMN, "            if not linkentry.getneedsmerge():\n                self.fileentries.append(linkentry)\n                continue\n            if linkentry.selector in fileentriesdict:", "            if not linkentry.getneedsmerge() or linkentry.selector not in fileentriesdict:\n                self.fileentries.append(linkentry)\n                continue\n            if True:"))
fault("c08-merge-unset-fields", "C08", "R08d", (UMN, "            if getattr(new, field) is not None:\n                setattr(old, field, getattr(new, field))", "            setattr(old, field, getattr(new, field))"))
fault("c08-merge-no-num", "C08", "R08d", (UMN, '["selector", "type", "name", "host", "port", "num"]', '["selector", "type", "name", "host", "port"]'))
fault("c08-merge-no-ea", "C08", "R08d", (UMN, "            old.setea(field, new.getea(field))", "            pass"))
fault("c08-cap-dash-not-hidden", "C08", "R08e", (UMN, 'if capinfo[0].gettype() == "X" or capinfo[0].gettype() == "-":', 'if capinfo[0].gettype() == "X":'))
fault("c08-cap-not-merged", "C08", "R08e", (UMN, "                    self.mergeentries(fileentry, capinfo[0])", "                    pass"))
fault("c08-cap-ioerror-escapes", "C08", "R08e", (UMN, "        except IOError:  # Ignore no capfile situation\n            pass", "        except KeyError:\n            pass"))
fault("c08-host-plus-literal", "C08", "R08f", (UMN, '                if line[5:] != "+":\n                    entry.sethost(line[5:])', "                entry.sethost(line[5:])"))
twin("c08-twin-port-plus-via-valueerror", "C08", (UMN, '                if line[5:] != "+":\n                    try:  # Don\'t crash if we can\'t parse the number\n                        entry.setport(int(line[5:]))', '                if line[5:] != "-":\n                    try:  # Don\'t crash if we can\'t parse the number\n                        entry.setport(int(line[5:]))'), note="Port=+ then reaches int(\"+\"), whose ValueError the same try swallows: the port stays unset, as documented")

# --- content-derived partial operations (R03i), third-party parser exceptions (R03e)
GMAP = "pygopherd/handlers/gophermap.py"
ZIPF = "pygopherd/handlers/ZIP.py"
fault("c03-linkfile-type-index", "C03", "R03i", (UMN, "                if len(line) > 5:  # Don't crash on a Type= line without a type\n                    entry.settype(line[5])", "                entry.settype(line[5])"))
fault("c03-linkfile-port-int", "C03", "R03i", (UMN, "                    try:  # Don't crash if we can't parse the number\n                        entry.setport(int(line[5:]))\n                    except ValueError:\n                        pass", "                    entry.setport(int(line[5:]))"))
fault("c03-gophermap-empty-selector", "C03", "R03i", (GMAP, 'if selector[0:1] != "/" and selector[0:4] != "URL:":', 'if selector[0] != "/" and selector[0:4] != "URL:":'))
fault("c03-gophermap-no-type", "C03", "R03i", (GMAP, "                    if not args[0]:\n                        # No type character in front of the first tab.\n                        continue\n", ""))
fault("c03-gophermap-port-int", "C03", "R03i", (GMAP, "                        try:  # Don't crash if we can't parse the number\n                            entry.port = int(args[3])\n                        except ValueError:\n                            pass", "                        entry.port = int(args[3])"))
twin("c03-twin-gophermap-type-slice", "C03", (GMAP, "                    if not args[0]:\n                        # No type character in front of the first tab.\n                        continue\n", "                    if len(args[0]) < 1:\n                        continue\n"))
fault("c03-badzip-escapes", "C03", "R03e", (ZIPF, "        try:\n            self.zip = zipfile.ZipFile(self.zipfd)\n        except zipfile.BadZipFile as e:\n            # Looked like an archive to is_zipfile(), but is damaged.\n            self.zipfd.close()\n            raise OSError(errno.EINVAL, str(e), self.zipfilename) from e\n", "        self.zip = zipfile.ZipFile(self.zipfd)\n"))

# --- R12c regular-file evidence before open()
GE = "pygopherd/gopherentry.py"
fault("c12-sidecar-fifo", "C12", "R12c", (GE, "            if not vfs.isfile(selector + extension):\n                # Usually there is no such file; a FIFO would block forever.\n                continue\n", ""))
fault("c12-linkfile-fifo", "C12", "R12c", (UMN, "        if not self.vfs.isfile(filename):\n            # Nothing to read, and opening a FIFO would block forever.\n            raise FileNotFoundError(filename)\n", ""))
fault("c12-gophermap-no-isfile", "C12", "R12c", (GMAP, 'and self.vfs.isfile(self.getselector() + "/gophermap")', 'and self.vfs.exists(self.getselector() + "/gophermap")'))
twin("c12-twin-sidecar-isfile-local", "C12", (GE, "            if not vfs.isfile(selector + extension):\n                # Usually there is no such file; a FIFO would block forever.\n                continue\n", "            sidecar = selector + extension\n            if not vfs.isfile(sidecar):\n                continue\n"))

fault("c05-mbox-off-by-one", "C05", "R05d", (MBOX, "self.genargsselector(self.getargflag() + str(index))", "self.genargsselector(self.getargflag() + str(index - 1))"))
twin("c05-twin-mbox-fstring", "C05", (MBOX, "self.genargsselector(self.getargflag() + str(index))", 'self.genargsselector(f"{self.getargflag()}{index}")'))
fault("c05-mbox-parse-other-flag", "C05", "R05d", (MBOX, 'pattern = "^" + self.getargflag() + r"(\\d+)$"', 'pattern = "^/MESSAGE/" + r"(\\d+)$"'))

# --- decoding after the whitespace collapse re-introduces line breaks (R13e)
fault("c13-subject-decoded-after-collapse", "C13", "R13e", (MBOX, '            subject = re.sub(r"\\s+", " ", subject)\n', '            subject = re.sub(r"\\s+", " ", subject)\n            import email.header\n            subject = str(email.header.make_header(email.header.decode_header(subject)))\n'))
twin("c13-twin-subject-decoded-before-collapse", "C13", (MBOX, '            subject = re.sub(r"\\s+", " ", subject)\n', '            import email.header\n            subject = str(email.header.make_header(email.header.decode_header(subject)))\n            subject = re.sub(r"\\s+", " ", subject)\n'))

# --- R16f member names
fault("c16-names-always-cp437", "C16", "R16f", (ZIPF, '            if info.flag_bits & 0x800:\n                filename = filename.encode("utf-8").decode(errors="surrogateescape")\n            else:\n                filename = filename.encode("cp437").decode(errors="surrogateescape")', '            filename = filename.encode("cp437", errors="replace").decode(errors="surrogateescape")'))
fault("c16-names-not-redecoded", "C16", "R16f", (ZIPF, '                filename = filename.encode("cp437").decode(errors="surrogateescape")', "                pass"))
twin("c16-twin-names-flag-local", "C16", (ZIPF, "            if info.flag_bits & 0x800:\n                filename = filename.encode(\"utf-8\")", "            isutf8 = bool(info.flag_bits & 0x800)\n            if isutf8:\n                filename = filename.encode(\"utf-8\")"))

# --- R17i / R18d / R20d / R06e / R11a(one object) / R03h
fault("c17-attrs-not-bound", "C17", "R17i", (TALES, "\t\t\tself.globals['attrs'] = originalAtts\n", ""))
fault("c17-attrs-bound-at-scope", "C17", "R17i", (TALPY, "\t\tself.originalAttributes = args[0]\n\t\tself.currentAttributes = args[1]", "\t\tself.originalAttributes = args[0]\n\t\tself.context.addGlobal ('attrs', args[0])\n\t\tself.currentAttributes = args[1]"))
fault("c17-evaluate-without-attrs", "C17", "R17i", (TALPY, "\t\tresult = self.context.evaluate (args[0], self.originalAttributes)", "\t\tresult = self.context.evaluate (args[0])"))
FHP = "simpletal/FixedHTMLParser.py"
fault("c18-charrefs-live-unescaped", "C18", "R18d", (FHP, "\tdef unescape(self, s):\n", "\tdef __init__ (self):\n\t\thtml.parser.HTMLParser.__init__ (self, convert_charrefs=False)\n\n\tdef unescape(self, s):\n"))
fault("c18-handle-data-unescaped", "C18", "R18d", (TALPY, "\t\tself.parseData (html.escape (data, quote=False))", "\t\tself.parseData (data)"))
twin("c18-twin-charrefs-live-escaped", "C18", (FHP, "\tdef unescape(self, s):\n", "\tdef __init__ (self):\n\t\thtml.parser.HTMLParser.__init__ (self, convert_charrefs=False)\n\n\tdef unescape(self, s):\n"),
     (TALPY, "\t\tself.parseData (chr (int (ref)))", "\t\tself.parseData (html.escape (chr (int (ref)), quote=False))"))
fault("c20-log-once-per-protocol", "C20", "R20d", (GEXC, "    if handler:\n        handlerstr = type(handler).__name__\n", "    if handler:\n        handlerstr = type(handler).__name__\n    if protocol and getattr(protocol, 'logged', False):\n        return\n    if protocol:\n        protocol.logged = True\n"))
fault("c20-log-skips-closed", "C20", "R20d", (GEXC, "    if handler:\n        handlerstr = type(handler).__name__\n", "    if handler:\n        handlerstr = type(handler).__name__\n    if isinstance(exception, BrokenPipeError):\n        return\n"))
fault("c06-http-local-by-hostname", "C06", "R06e", (HTTP, "        elif (not entry.gethost()) and (not entry.getport()):", "        elif (not entry.getport()) or entry.gethost() == self.server.server_name:"))
fault("c06-gemini-local-ignores-port", "C06", "R06e", (GEM, "        elif (not entry.gethost()) and (not entry.getport()):", "        elif not entry.gethost():"))
twin("c06-twin-local-demorgan", "C06", (HTTP, "        elif (not entry.gethost()) and (not entry.getport()):", "        elif not (entry.gethost() or entry.getport()):"))
fault("c11-records-until-eof", "C11", "R11a", (DIR, "                    self.fileentries = pickle.load(fp)", "                    up = pickle.Unpickler(fp)\n                    self.fileentries = []\n                    while fp.peek(1):\n                        self.fileentries.append(up.load())"))
fault("c03-mbox-size-set", "C03", "R03h", (MBOX, '                self.entry.setname("<no subject>")\n', '                self.entry.setname("<no subject>")\n            self.entry.size = len(message.as_string())\n'))

# --- D32-D38 regressions
fault("c08-dash-not-hidden-in-merge", "C08", "R08c", (UMN, 'if linkentry.gettype() in ("X", "-"):', 'if linkentry.gettype() == "X":'))
twin("c08-twin-hide-types-or", "C08", (UMN, 'if linkentry.gettype() in ("X", "-"):', 'if linkentry.gettype() == "X" or linkentry.gettype() == "-":'))
fault("c04-head-404-body", "C04", "R04c", (HTTP, '        if self.requestparts[0] == "HEAD":\n            return\n        self.wfile.write(\n            b\'<!DOCTYPE', '        self.wfile.write(\n            b\'<!DOCTYPE'))
fault("c04-head-wap-error-body", "C04", "R04c", (WAP, '        if self.requestparts[0] == "HEAD":\n            return\n        wfile.write(wmlheader.encode())', '        wfile.write(wmlheader.encode())'))
R1436 = "pygopherd/protocols/rfc1436.py"
fault("c06-menu-port-own-for-other-host", "C06", "R06f", (R1436, "        defaultport = self.server.server_port if entry.gethost() is None else 70\n", "        defaultport = self.server.server_port\n"))
fault("c06-url-type-none", "C06", "R06f", (GE, 'self.gettype("0"), self.getselector()', "self.gettype(), self.getselector()"))
fault("c06-url-port-own", "C06", "R06f", (HTTP, "url = entry.geturl(self.server.server_name, 70)", "url = entry.geturl(self.server.server_name, self.server.server_port)"))
twin("c06-twin-menu-port-ifelse", "C06", (R1436, "        defaultport = self.server.server_port if entry.gethost() is None else 70\n", "        if entry.gethost() is None:\n            defaultport = self.server.server_port\n        else:\n            defaultport = 70\n"))
fault("c05-wap-prefix-no-boundary", "C05", "R05f", (WAP, '        if self.requestparts[1] == waptop or self.requestparts[1].startswith(\n            (waptop + "/", waptop + "?")\n        ):', "        if self.requestparts[1].startswith(waptop):"))
fault("c05-wap-prefix-not-stripped", "C05", "R05f", (WAP, "            self.requestparts[1] = self.requestparts[1][len(waptop) :]\n", ""))
twin("c05-twin-wap-prefix-partition", "C05", (WAP, '        if self.requestparts[1] == waptop or self.requestparts[1].startswith(\n            (waptop + "/", waptop + "?")\n        ):', '        rest = self.requestparts[1][len(waptop) :]\n        if self.requestparts[1].startswith(waptop) and rest[:1] in ("", "/", "?"):'))
HBASE = "pygopherd/handlers/base.py"
fault("c07-listdir-normalised", "C07", "R07h", (HBASE, "        return [os.fsdecode(filename) for filename in files]", "        return [os.fsdecode(filename).lower() for filename in files]"))
twin("c07-twin-listdir-sorted", "C07", (HBASE, "        return [os.fsdecode(filename) for filename in files]", "        return sorted(os.fsdecode(f) for f in files)"))
fault("c05-http-urlparse-params", "C05", "R05g", (HTTP, '        splitted = self.requestparts[1].split("?")\n        self.selector = splitted[0]\n', '        splitted = self.requestparts[1].split("?")\n        self.selector = urllib.parse.urlparse(self.requestparts[1]).path\n'))
fault("c04-http-urlparse-params", "C04", "R04g", (HTTP, '        splitted = self.requestparts[1].split("?")\n        self.selector = splitted[0]\n', '        splitted = self.requestparts[1].split("?")\n        self.selector = urllib.parse.urlparse(self.requestparts[1]).path\n'))
fault("c05-spartan-cut-at-hash", "C05", "R05g", (SPAR, '        self.selector = urllib.parse.unquote(path, errors="surrogateescape")', '        self.selector = urllib.parse.unquote(path, errors="surrogateescape").split("#")[0]'))
twin("c05-twin-http-partition", "C05", (HTTP, '        splitted = self.requestparts[1].split("?")\n        self.selector = splitted[0]\n', '        splitted = self.requestparts[1].split("?")\n        self.selector = self.requestparts[1].partition("?")[0]\n'))
fault("c02-headers-stripped", "C02", "R02g", (HTTP, "                self.httpheaders[splitline[0].lower()] = splitline[1]", "                self.httpheaders[splitline[0].lower()] = splitline[1].strip()"))
fault("c02-wap-accept-anchored", "C02", "R02g", (WAP, 're.search("[, ]text/vnd.wap.wml", self.httpheaders["accept"])', 're.search("^text/vnd.wap.wml", self.httpheaders["accept"])'))
twin("c02-twin-headers-stripped-regex-adapted", "C02", (HTTP, "                self.httpheaders[splitline[0].lower()] = splitline[1]", "                self.httpheaders[splitline[0].lower()] = splitline[1].strip()"),
     (WAP, 're.search("[, ]text/vnd.wap.wml", self.httpheaders["accept"])', 're.search("(^|[, ])text/vnd.wap.wml", self.httpheaders["accept"])'))
fault("c03-maildir-message-creates", "C03", "R03e", (MBOX, "        return Maildir(self.getfspath(), create=False)", "        return Maildir(self.getfspath())"))
fault("c08-extstrip-after-cap", "C08", "R08e", (UMN, "        except IOError:  # Ignore no capfile situation\n            pass\n", "        except IOError:  # Ignore no capfile situation\n            pass\n        if fileentry.getname():\n            fileentry.setname(fileentry.getname().rsplit('.', 1)[0])\n"))
fault("c05-mail-message-side-filtered", "C05", "R05d", (MBOX, "            mailbox = iter(self.openmailbox())", "            mailbox = (m for m in self.openmailbox() if m.get('X-Status') != 'D')"))
twin("c05-twin-mail-no-iter", "C05", (MBOX, "            mailbox = iter(self.openmailbox())", "            box = self.openmailbox()\n            mailbox = iter(box)"))

# --- R08g link-file text
fault("c08-host-plus-not-resolved", "C08", "R08g", (UMN, "                entry.getneedsabspath()\n                and entry.gethost() is None\n                and entry.getport() is None\n", "                entry.getneedsabspath()\n                and not done[\"host\"]\n                and not done[\"port\"]\n"))
fault("c08-tilde-path-not-merged", "C08", "R08g", (UMN, 'if len(line) >= 7 and (line[5:7] == "./" or line[5:7] == "~/"):', 'if len(line) >= 7 and line[5:7] == "./":'))
fault("c08-trailing-slash-kept", "C08", "R08g", (UMN, '                if len(pathname) and pathname[-1] == "/":\n                    pathname = pathname[0:-1]\n', ""))
fault("c08-abstract-continuation-lost", "C08", "R08g", (UMN, '                    abstractstr += abstractline[0:-1] + "\\n"', '                    abstractstr += abstractline[0:-1]'))
fault("c08-comment-ends-block-early", "C08", "R08g", (UMN, '                if done["path"]:\n                    break\n                else:\n                    continue', "                break"))
twin("c08-twin-path-startswith", "C08", (UMN, 'if len(line) >= 7 and (line[5:7] == "./" or line[5:7] == "~/"):', 'if len(line) >= 7 and line[5:].startswith(("./", "~/")):'))
fault("c16-negative-cache-prefix", "C16", "R16g", (ZIPF, "        elif dir_ in self.invalid_paths:", "        elif any(dir_.startswith(p) for p in self.invalid_paths):"))
fault("c16-lookup-case-insensitive", "C16", "R16g", (ZIPF, "                inode = directory[item]\n", "                inode = directory[item] if item in directory else directory[item.lower()]\n"))

# --- batch 3 rules
PBASEF = "pygopherd/protocols/base.py"
fault("c20-filenotfound-none-resub", "C20", "R20b", (PBASEF, "    def filenotfound(self, msg: str):\n", "    def filenotfound(self, msg: str):\n        msg = msg.replace(\"\\t\", \" \")\n"))
twin("c20-twin-filenotfound-str-first", "C20", (PBASEF, "    def filenotfound(self, msg: str):\n", "    def filenotfound(self, msg: str):\n        msg = str(msg)\n        msg = msg.replace(\"\\t\", \" \")\n"))
fault("c17-repeat-no-pcforward-reset", "C17", "R17j", (TALPY, "\t\t\tself.tagContent = None\n\t\t\tself.movePCForward = None\n", "\t\t\tself.tagContent = None\n"))
fault("c17-repeat-no-outputtag-reset", "C17", "R17j", (TALPY, "\t\t\tself.outputTag = 1\n\t\t\tself.tagContent = None\n\t\t\tself.movePCForward = None\n", "\t\t\tself.tagContent = None\n\t\t\tself.movePCForward = None\n"))
fault("c17-program-state-drops-flag", "C17", "R17d", (TALPY, "\t\t\t\t,self.tagContent\n\t\t\t\t,self.localVarsDefined)", "\t\t\t\t,self.tagContent)"),
      (TALPY, "self.repeatAttributesCopy,self.tagContent,self.localVarsDefined = vars", "self.repeatAttributesCopy,self.tagContent = vars"))
fault("c18-program-state-drops-flag", "C18", "R18c", (TALPY, "\t\t\t\t,self.tagContent\n\t\t\t\t,self.localVarsDefined)", "\t\t\t\t,self.tagContent)"),
      (TALPY, "self.repeatAttributesCopy,self.tagContent,self.localVarsDefined = vars", "self.repeatAttributesCopy,self.tagContent = vars"))
fault("c12-linkfiles-read-after-walk", "C12", "R12a", (UMN, "        fileentriesdict = {}\n        for entry in self.fileentries:", "        for lf in self.linkentries:\n            self.processLinkFile(lf.selector)\n        fileentriesdict = {}\n        for entry in self.fileentries:"))


# ======================================================================= round 4 (rules added for seeded changes C01-d ... C20-d)
fault("c01-stat-oracle", "C01", "R01l", (HM, '    raise GopherExceptions.FileNotFound(selector, "no handler found", protocol)\n',
      '    if statresult is not None:\n        raise GopherExceptions.FileNotFound(selector, "not servable", protocol)\n    raise GopherExceptions.FileNotFound(selector, "no handler found", protocol)\n'))
fault("c01-stat-failure-answers", "C01", "R01l", (HM, "        statresult = vfs.stat(selector)\n    except (OSError, ValueError):\n",
      "        statresult = vfs.stat(selector)\n    except (OSError, ValueError):\n        raise GopherExceptions.FileNotFound(selector, \"no such file\", protocol)\n"))
twin("c01-twin-notfound-text", "C01", (HM, '"no handler found"', '"no handler accepts this selector"'))
_MEMO = ("class HTTPProtocol(BaseGopherProtocol):", "import functools\n\n\n@functools.lru_cache(maxsize=64)\ndef _split(request):\n    return %s\n\n\nclass HTTPProtocol(BaseGopherProtocol):")
fault("c02-memo-mutable-result", "C02", "R02e", (HTTP, _MEMO[0], _MEMO[1] % '[arg.strip() for arg in request.split(" ")]'),
      (HTTP, '        self.requestparts = [arg.strip() for arg in self.request.split(" ")]', "        self.requestparts = _split(self.request)"))
fault("c14-memo-mutable-result", "C14", "R14a", (HTTP, _MEMO[0], _MEMO[1] % '[arg.strip() for arg in request.split(" ")]'),
      (HTTP, '        self.requestparts = [arg.strip() for arg in self.request.split(" ")]', "        self.requestparts = _split(self.request)"))
twin("c02-twin-memo-immutable", "C02", (HTTP, _MEMO[0], _MEMO[1] % 'tuple(arg.strip() for arg in request.split(" "))'),
     (HTTP, '        self.requestparts = [arg.strip() for arg in self.request.split(" ")]', "        self.requestparts = list(_split(self.request))"))
fault("c06-wap-search-double-encoded", "C06", "R06h", (WAP, "% url  # .replace('%', '%25')", '% url.replace("%", "%25")'))
fault("c05-wap-search-double-encoded", "C05", "R05g", (WAP, "% url  # .replace('%', '%25')", '% url.replace("%", "%25")'))
fault("c07-cache-saved-before-merge", "C07", "R07i", (DIR, "        self.prep_entries()\n        return True  # Did something.\n", "        self.prep_entries()\n        self.savecache()\n        return True  # Did something.\n"))
fault("c10-cache-saved-before-merge", "C10", "R10c", (DIR, "        self.prep_entries()\n        return True  # Did something.\n", "        self.prep_entries()\n        self.savecache()\n        return True  # Did something.\n"))
fault("c08-empty-directory-fastpath", "C08", "R08b", (DIR, "        self.prep_initfiles()\n\n        # Sort the list.\n",
      "        self.prep_initfiles()\n\n        if not self.files:\n            self.fileentries = []\n            return False\n\n        # Sort the list.\n"))
fault("c12-skipped-entry-removed-from-walked-list", "C12", "R12d", (DIR, "                # An unservable entry must not take down the whole listing.\n                continue\n\n    def prep_entriesappend",
      "                # An unservable entry must not take down the whole listing.\n                self.files.remove(file)\n                continue\n\n    def prep_entriesappend"))
twin("c12-twin-skipped-entry-noted", "C12", (DIR, "                # An unservable entry must not take down the whole listing.\n                continue\n\n    def prep_entriesappend",
     "                # An unservable entry must not take down the whole listing.\n                self.skipped = getattr(self, \"skipped\", 0) + 1\n                continue\n\n    def prep_entriesappend"))
fault("c13-normalised-after-escaping", "C13", "R13a", (HTTP, "import html\n", "import html\nimport unicodedata\n"),
      (HTTP, "        return self.getrenderstr(entry, html.escape(url))", '        return unicodedata.normalize("NFKC", self.getrenderstr(entry, html.escape(url)))'))
twin("c13-twin-normalised-before-escaping", "C13", (HTTP, "import html\n", "import html\nimport unicodedata\n"),
     (HTTP, "        return self.getrenderstr(entry, html.escape(url))", '        return self.getrenderstr(entry, html.escape(unicodedata.normalize("NFC", url)))'))
fault("c16-stat-mode-from-archive", "C16", "R16h", (ZIP, "            33188,  # mode\n", "            (zi.external_attr >> 16) or 33188,  # mode\n"))
twin("c16-twin-stat-mode-spelled", "C16", (ZIP, "            33188,  # mode\n", "            stat.S_IFREG | 0o644,  # mode\n"))
fault("c20-zip-write-converts-oserror", "C20", "R20e", (ZIP, "    def write(self, wfile):\n        self.handler.write(wfile)\n",
      "    def write(self, wfile):\n        try:\n            self.handler.write(wfile)\n        except (zipfile.BadZipFile, OSError) as e:\n            raise GopherExceptions.FileNotFound(self.selector, str(e), self.protocol)\n"))
twin("c20-twin-zip-write-badzip-only", "C20", (ZIP, "    def write(self, wfile):\n        self.handler.write(wfile)\n",
     "    def write(self, wfile):\n        try:\n            self.handler.write(wfile)\n        except zipfile.BadZipFile as e:\n            raise OSError(str(e))\n"))
fault("c15-entry-depends-on-protocol", "C15", "R15g", (FILE, "    def getentry(self):\n", "    def getentry(self):\n        self.wantsea = getattr(self.protocol, \"wantsattributes\", True)\n"))
fault("c06-entry-depends-on-protocol", "C06", "R06i", (FILE, "    def getentry(self):\n", "    def getentry(self):\n        self.wantsea = getattr(self.protocol, \"wantsattributes\", True)\n"))
fault("c05-title-no-collapse", "C05", "R05h", (HTML, '            title = re.sub(r"[\\s]+", " ", parser.titlestr)\n', "            title = parser.titlestr\n"))
fault("c11-zip-no-completeness-check", "C11", "R11c", (ZIP, "            if dircache.pop(self.CACHE_COMPLETE_KEY, None) != len(dircache):\n                raise ValueError(\"incomplete cache\")\n", "            dircache.pop(self.CACHE_COMPLETE_KEY, None)\n"))
fault("c11-zip-count-written-first", "C11", "R11c", (ZIP, "                for (key, value) in self.dircache.items():\n                    db[key] = value\n                # Written last: a store that lost entries has lost this one\n                # as well, or no longer matches it.\n                db[self.CACHE_COMPLETE_KEY] = len(self.dircache)\n",
      "                db[self.CACHE_COMPLETE_KEY] = len(self.dircache)\n                for (key, value) in self.dircache.items():\n                    db[key] = value\n"))
fault("c11-zip-count-check-outside-guard", "C11", "R11c", (ZIP, "            with shelve.open(cache_fspath, \"r\") as db:\n                dircache = dict(db)\n            if dircache.pop(self.CACHE_COMPLETE_KEY, None) != len(dircache):\n                raise ValueError(\"incomplete cache\")\n            self.dircache = dircache\n        except Exception:\n            self.populate_cache()\n            self.save_cache()\n",
      "            with shelve.open(cache_fspath, \"r\") as db:\n                dircache = dict(db)\n        except Exception:\n            self.populate_cache()\n            self.save_cache()\n            return\n        if dircache.pop(self.CACHE_COMPLETE_KEY, None) != len(dircache):\n            raise ValueError(\"incomplete cache\")\n        self.dircache = dircache\n"))
twin("c11-twin-zip-count-get", "C11", (ZIP, "            if dircache.pop(self.CACHE_COMPLETE_KEY, None) != len(dircache):\n", "            if dircache.pop(self.CACHE_COMPLETE_KEY, -1) != len(dircache):\n"))


# ======================================================================= round 5 (rules added for seeded changes C01-e ... C20-e)
fault("c02-empty-plus-field-claimed", "C02", "R02h", (GP, '        return (\n            self.gopherpstring.startswith("+")\n            or self.gopherpstring == "!"\n            or self.gopherpstring.startswith("$")\n        )',
      '        return self.gopherpstring == "!" or self.gopherpstring[:1] in "+$"'))
twin("c02-twin-plus-field-tuple", "C02", (GP, '        return (\n            self.gopherpstring.startswith("+")\n            or self.gopherpstring == "!"\n            or self.gopherpstring.startswith("$")\n        )',
     '        return self.gopherpstring == "!" or self.gopherpstring.startswith(("+", "$"))'))
fault("c03-normalise-before-decoding", "C03", "R03j", (GEM, '        self.selector = urllib.parse.unquote(selector, errors="surrogateescape")\n        self.selector = self.slashnormalize(self.selector)\n',
      '        self.selector = urllib.parse.unquote(self.slashnormalize(selector), errors="surrogateescape")\n'))
fault("c07-verdicts-remembered", "C07", "R07j", (DIR, "        return not re.search(ignorepatt, pattern)\n", "        key = (ignorepatt, file)\n        if key not in _verdicts:\n            _verdicts[key] = not re.search(ignorepatt, pattern)\n        return _verdicts[key]\n"),
      (DIR, "class DirHandler(BaseHandler):", "_verdicts = {}\n\n\nclass DirHandler(BaseHandler):"))
fault("c11-cache-through-tempfile", "C11", "R11d", (DIR, '            with self.vfs.open(self.cachename, "wb") as fp:\n', '            import tempfile\n\n            tmpfd, tmpname = tempfile.mkstemp(dir=".")\n            with self.vfs.open(self.cachename, "wb") as fp:\n'))
fault("c12-populate-swallows-stat", "C12", "R12e", (GE, "        self.populatefromfs(selector, statval=vfs.stat(selector), vfs=vfs)\n", "        self.populatefromfs(selector, vfs=vfs)\n"))
twin("c12-twin-populate-local-stat", "C12", (GE, "        self.populatefromfs(selector, statval=vfs.stat(selector), vfs=vfs)\n", "        statval = vfs.stat(selector)\n        self.populatefromfs(selector, statval=statval, vfs=vfs)\n"))
fault("c18-addrepeat-asks-after-push", "C18", "R18e", (TALES, "\t\tself.setLocal (name, initialValue)\n", "\t\tself.setLocal (name, var.getCurrentValue())\n"))
fault("c04-request-line-bounded", "C04", "R04h", (SERVER, "        request = self.rfile.readline().decode(errors=\"surrogateescape\")", "        request = self.rfile.readline(1026).decode(errors=\"surrogateescape\")"))
fault("c05-gemini-url-length-refused", "C05", "R05i", (GEM, "        selector = url_parts.path\n", "        if len(self.request.strip()) > 1024:\n            self.write_status(59, \"Bad request\")\n            return\n        selector = url_parts.path\n"))
twin("c05-twin-gemini-empty-request", "C05", (GEM, "        selector = url_parts.path\n", "        if len(self.request.strip()) == 0:\n            self.write_status(59, \"Bad request\")\n            return\n        selector = url_parts.path\n"))
fault("c06-gopher-url-slash-model", "C06", "R06j", (GE, '            "{}{}".format(self.gettype("0"), self.getselector()), errors="surrogateescape"', '            "{}/{}".format(self.gettype("0"), self.getselector().lstrip("/")), errors="surrogateescape"'))
fault("c14-service-actions-no-super", "C14", "R14d", (SERVER, "    def server_bind(self) -> None:", "    def service_actions(self) -> None:\n        self.ticks = getattr(self, \"ticks\", 0) + 1\n\n    def server_bind(self) -> None:"))
twin("c14-twin-service-actions-super", "C14", (SERVER, "    def server_bind(self) -> None:", "    def service_actions(self) -> None:\n        self.ticks = getattr(self, \"ticks\", 0) + 1\n        super().service_actions()\n\n    def server_bind(self) -> None:"))
fault("c20-gophermap-file-held-by-generator", "C20", "R20c", (GMAP, "        with self.vfs.open(selector, \"rb\") as rfile:\n", "        self.entries = self._lazy(self.vfs.open(selector, \"rb\"))\n        with self.vfs.open(selector, \"rb\") as rfile:\n"),
      (GMAP, "    def isdir(self):\n        return True\n", "    def isdir(self):\n        return True\n\n    def _lazy(self, rfile):\n        with rfile:\n            for raw in rfile:\n                yield raw\n"))


# ======================================================================= C09 (gophermap lines, decided by evaluation on representatives)
fault("c09-relative-link-not-resolved", "C09", "R09a", (GMAP, '                        selector = selectorbase + "/" + selector\n', '                        selector = "/" + selector\n'))
fault("c09-missing-selector-keeps-type-char", "C09", "R09a", (GMAP, "                        args[1] = args[0][1:]  # Copy display string to selector", "                        args[1] = args[0]  # Copy display string to selector"))
fault("c09-blank-lines-dropped", "C09", "R09a", (GMAP, "                    line = line.strip()\n                    self.entries.append(", "                    line = line.strip()\n                    if not line:\n                        continue\n                    self.entries.append("))
fault("c09-hash-lines-are-comments", "C09", "R09a", (GMAP, '                if re.search("\\t", line):  # gophermap link', '                if line.startswith("#"):\n                    continue\n                if re.search("\\t", line):  # gophermap link'))
fault("c09-port-kept-as-text", "C09", "R09a", (GMAP, "                            entry.port = int(args[3])", "                            entry.port = args[3]"))
fault("c09-name-keeps-type-char", "C09", "R09a", (GMAP, "                    entry.name = args[0][1:]", "                    entry.name = args[0]"))
fault("c09-entries-sorted", "C09", "R09a", (GMAP, "    def isdir(self):\n        return True\n", "    def isdir(self):\n        return True\n\n    def _unused(self):\n        pass\n"),
      (GMAP, "                    self.entries.append(gopherentry.getinfoentry(line, self.config))\n", "                    self.entries.append(gopherentry.getinfoentry(line, self.config))\n        self.entries.reverse()\n"))
fault("c09-missing-host-filled-in", "C09", "R09a", (GMAP, "                    if len(args) >= 3 and len(args[2]):\n                        entry.host = args[2]\n", "                    if len(args) >= 3 and len(args[2]):\n                        entry.host = args[2]\n                    else:\n                        entry.host = \"localhost\"\n"))
fault("c09-url-selector-made-relative", "C09", "R09a", (GMAP, 'if selector[0:1] != "/" and selector[0:4] != "URL:":  # Relative link', 'if selector[0:1] != "/":  # Relative link'))
fault("c09-info-text-keeps-newline", "C09", "R09a", (GMAP, "                    line = line.strip()\n                    self.entries.append(", "                    self.entries.append("))
fault("c09-getdirlist-copy-sorted", "C09", "R09c", (GMAP, "    def getdirlist(self):\n        return self.entries", "    def getdirlist(self):\n        return sorted(self.entries, key=lambda e: e.getname() or \"\")"))
fault("c09-infoentry-type", "C09", "R09b", (GE, '    entry.type = "i"\n    return entry', '    entry.type = "0"\n    return entry'))
twin("c09-twin-tab-test", "C09", (GMAP, 'if re.search("\\t", line):  # gophermap link', 'if "\\t" in line:  # gophermap link'))
twin("c09-twin-for-loop", "C09", (GMAP, "            while True:\n                line = rfile.readline().decode(errors=\"surrogateescape\")\n                if not line:\n                    break\n",
     "            for raw in rfile:\n                line = raw.decode(errors=\"surrogateescape\")\n"))
twin("c09-twin-setters", "C09", (GMAP, "                    entry.type = args[0][0]\n                    entry.name = args[0][1:]\n", "                    entry.settype(args[0][0])\n                    entry.setname(args[0][1:])\n"))

# ======================================================================= round f (rules R02h near misses, R05j, R06h URL, R07k, R08g full blocks,
# R11e, R12f, R16i, R17k, R18f, R20a paths, R20d evaluation)
fault("c02-request-stripped-in-base", "C02", "R02h", (PBASE, "        self.request = request\n", "        self.request = request.strip()\n"))
twin("c02-twin-http-parts-local", "C02",
     (HTTP, '''        self.requestparts = [arg.strip() for arg in self.request.split(" ")]
''', '''        parts = self.request.split(" ")
        self.requestparts = [arg.strip() for arg in parts]
'''))
fault("c05-second-member-reader", "C05", "R05j",
      (ZIP, "                if zipfile.is_zipfile(self.vfs.getfspath(basename)):  # noqa\n",
       "                if zipfile.is_zipfile(self.vfs.getfspath(basename)) and (\n"
       "                    appendage is None or appendage in zipfile.ZipFile(self.vfs.getfspath(basename)).namelist()\n"
       "                ):  # noqa\n"))
fault("c06-wap-href-raw", "C06", "R06h", (HTTP, "html.escape(url)", "url"), (WAP, '''        retstr = ""
        if not entry.gettype() in ["i", "7"]:''', '''        retstr = ""
        url = url.replace("&amp;", "&")
        if not entry.gettype() in ["i", "7"]:'''))
fault("c07-cache-kept-while-dir-unchanged", "C07", "R07k",
      (DIR, "        if time.time() - statval[stat.ST_MTIME] < self.cachetime:\n",
       "        if time.time() - statval[stat.ST_MTIME] < self.cachetime or (\n"
       "            self.statresult and self.statresult[stat.ST_MTIME] < statval[stat.ST_MTIME]\n        ):\n"))
fault("c08-block-ends-when-complete", "C08", "R08g",
      (UMN, "            # FIXME: Handle Admin, URL, TTL\n\n        if done[\"path\"]:", "            # FIXME: Handle Admin, URL, TTL\n            if all(done.values()):\n                break\n\n        if done[\"path\"]:"))
fault("c11-cache-rewritten-in-place", "C11", "R11e",
      (DIR, '            with self.vfs.open(self.cachename, "wb") as fp:\n                pickle.dump(self.fileentries, fp, 1)\n',
       '            with self.vfs.open(self.cachename, "r+b" if self.vfs.isfile(self.cachename) else "wb") as fp:\n'
       '                pickle.dump(self.fileentries, fp, 1)\n                fp.truncate()\n'))
fault("c11-cache-appended", "C11", "R11e", (DIR, 'self.vfs.open(self.cachename, "wb")', 'self.vfs.open(self.cachename, "ab")'))
fault("c11-zip-index-updated-in-place", "C11", "R11e", (ZIP, 'shelve.open(cache_fspath, "n")', 'shelve.open(cache_fspath, "c")'))
twin("c11-twin-mode-constant", "C11",
     (DIR, '            with self.vfs.open(self.cachename, "wb") as fp:\n', '            mode = "wb"\n            with self.vfs.open(self.cachename, mode) as fp:\n'))
fault("c12-isfile-means-not-a-directory", "C12", "R12f",
      (BASE, "        return os.path.isfile(filepath)\n", "        return os.path.exists(filepath) and not os.path.isdir(filepath)\n"))
fault("c12-isfile-by-lstat-mode", "C12", "R12f",
      (BASE, "        return os.path.isfile(filepath)\n",
       "        try:\n            return not stat.S_ISDIR(os.stat(filepath).st_mode)\n        except OSError:\n            return False\n"),
      (BASE, "import os.path\n", "import os.path\nimport stat\n"))
twin("c12-twin-isfile-by-stat-mode", "C12",
     (BASE, "        return os.path.isfile(filepath)\n",
      "        try:\n            return stat.S_ISREG(os.stat(filepath).st_mode)\n        except OSError:\n            return False\n"),
     (BASE, "import os.path\n", "import os.path\nimport stat\n"))
fault("c16-directory-member-replaces-level", "C16", "R16i",
      (ZIP, "                if level not in dirlevel:\n                    self.dircache[str(nextinode)] = {}\n",
       "                if level not in dirlevel or filename.endswith(\"/\"):\n                    pass\n                if True:\n                    self.dircache[str(nextinode)] = {}\n"))
fault("c17-exists-first-evaluable-alternative", "C17", "R17k",
      (TALES, "\t\t\t\tif (pathResult):\n\t\t\t\t\treturn self.true\n", "\t\t\t\tif (pathResult):\n\t\t\t\t\treturn self.true\n\t\t\t\treturn self.false\n"))
fault("c17-alternation-skips-false", "C17", "R17k",
      (TALES, "\t\t\t\ttry:\n\t\t\t\t\treturn self.evaluate (path.strip ())\n\t\t\t\texcept PathNotFoundException as e:\n\t\t\t\t\t# Path didn't exist, try the next one\n",
       "\t\t\t\ttry:\n\t\t\t\t\tfound = self.evaluate (path.strip ())\n\t\t\t\t\tif found:\n\t\t\t\t\t\treturn found\n\t\t\t\texcept PathNotFoundException as e:\n\t\t\t\t\t# Path didn't exist, try the next one\n"))
fault("c17-not-of-nothing-false", "C17", "R17k", (TALES, "\t\tif (pathResult is None):\n\t\t\t# Value was Nothing\n\t\t\treturn self.true\n", "\t\tif (pathResult is None):\n\t\t\t# Value was Nothing\n\t\t\treturn self.false\n"))
fault("c17-string-dollar-dollar", "C17", "R17k", (TALES, "\t\t\t\t\t\t\tresult += '$'\n\t\t\t\t\t\t\tskipCount = 1\n", "\t\t\t\t\t\t\tresult += '$$'\n\t\t\t\t\t\t\tskipCount = 1\n"))
twin("c17-twin-alternatives-helper", "C17",
     (TALES, '''			for path in allPaths:
				# Evaluate this path
				try:
					return self.evaluate (path.strip ())
				except PathNotFoundException as e:
					# Path didn't exist, try the next one
					pass
			# No paths evaluated - raise exception.
			raise PATHNOTFOUNDEXCEPTION
''', '''			return self.firstFound (allPaths)
'''),
     (TALES, '''	def evaluateExists (self, expr):
''', '''	def firstFound (self, paths):
		for path in paths:
			try:
				return self.evaluate (path.strip ())
			except PathNotFoundException as e:
				pass
		raise PATHNOTFOUNDEXCEPTION

	def evaluateExists (self, expr):
'''))
fault("c18-mixin-close-shadows-parser", "C18", "R18f",
      (TALPY, "\tdef parseStartTag (self, tag, attributes, singletonElement=0):\n", "\tdef close (self):\n\t\tself.log.debug (\"template complete\")\n\n\tdef parseStartTag (self, tag, attributes, singletonElement=0):\n"))
twin("c18-twin-mixin-finish", "C18",
     (TALPY, "\tdef parseStartTag (self, tag, attributes, singletonElement=0):\n", "\tdef finish (self):\n\t\tself.log.debug (\"template complete\")\n\n\tdef parseStartTag (self, tag, attributes, singletonElement=0):\n"))
fault("c20-resets-not-logged-by-server", "C20", "R20a",
      (SERVER, "                traceback.print_exc()\n            GopherExceptions.log(e, protohandler, None)\n        except Exception as e:",
       "                traceback.print_exc()\n                GopherExceptions.log(e, protohandler, None)\n        except Exception as e:"))
twin("c20-twin-log-line-helpers", "C20",
     (GEXC, '''    protostr = "None"
    handlerstr = "None"
    ipaddr = "unknown-address"
    exceptionclass = type(exception).__name__
    if protocol:
        protostr = type(protocol).__name__
        ipaddr = protocol.requesthandler.client_address[0]
    if handler:
        handlerstr = type(handler).__name__

    logger.log(
        "%s [%s/%s] EXCEPTION %s: %s"
        % (ipaddr, protostr, handlerstr, exceptionclass, str(exception))
    )
''', '''    logger.log(
        f"{_peer(protocol)} [{_cls(protocol)}/{_cls(handler)}] EXCEPTION {_cls(exception)}: {exception!s}"
    )


def _cls(obj):
    return type(obj).__name__ if obj else "None"


def _peer(protocol):
    return protocol.requesthandler.client_address[0] if protocol else "unknown-address"
'''))
fault("c20-log-line-peer-port", "C20", "R20d", (GEXC, "protocol.requesthandler.client_address[0]", "protocol.requesthandler.client_address[1]"))

# ======================================================================= round g (R01m, R04i, R05g gopher side, R07f failing filter, R10f, R11f, R12g,
# R15h, R16j, R17l, R19a deferred keys, R20a own writes)
URLH = "pygopherd/handlers/url.py"
HMUX = "pygopherd/handlers/HandlerMultiplexer.py"
fault("c01-rewriter-hands-on-unslashed", "C01", "R01m", (URLH, '            and self.selector[2] == "/"\n', '            and self.selector[1] in "0123456789"\n'))
twin("c01-twin-rewriter-local", "C01",
     (URLH, "        return handlers.HandlerMultiplexer.getHandler(\n            self.selector[2:],",
      "        rest = self.selector[2:]\n        return handlers.HandlerMultiplexer.getHandler(\n            rest,"))
fault("c02-spartan-accepts-non-ascii", "C02", "R02h",
      (SPAR, "        except UnicodeEncodeError:\n            return False\n", "        except UnicodeEncodeError:\n            pass\n"))
fault("c04-mime-of-basename", "C04", "R04i",
      (GE, "mimetypes.guess_type(self.selector, strict=False)", "mimetypes.guess_type(os.path.basename(self.selector), strict=False)"))
twin("c04-twin-mime-local", "C04",
     (GE, "        mimetype, encoding = mimetypes.guess_type(self.selector, strict=False)\n",
      "        looked_up = self.selector\n        mimetype, encoding = mimetypes.guess_type(looked_up, strict=False)\n"))
fault("c05-selector-slashes-collapsed", "C05", "R05g",
      (PBASE, '        if len(selector) == 0 or selector[0] != "/":\n            selector = "/" + selector\n        return selector\n',
       '        if len(selector) == 0 or selector[0] != "/":\n            selector = "/" + selector\n        while "//" in selector:\n            selector = selector.replace("//", "/")\n        return selector\n'))
fault("c07-one-failure-ends-the-scan", "C07", "R07f",
      (DIR, '''        for file in dirfiles:
            try:
                if self.prep_initfiles_canaddfile(
                    ignorepatt, self.selectorbase + "/" + file, file
                ):
                    self.files.append(file)
            except OSError:
                # An unreadable entry must not take down the whole listing.
                continue
''', '''        try:
            for file in dirfiles:
                if self.prep_initfiles_canaddfile(
                    ignorepatt, self.selectorbase + "/" + file, file
                ):
                    self.files.append(file)
        except OSError:
            # An unreadable entry must not take down the whole listing.
            pass
'''))
fault("c08-continuation-skips-comment-lines", "C08", "R08g",
      (UMN, "                    abstractline = fd.readline().strip()\n",
       "                    abstractline = fd.readline().strip()\n                    while abstractline.startswith(\"#\"):\n                        abstractline = fd.readline().strip()\n"))
fault("c09-port-only-with-host", "C09", "R09a",
      (GMAP, "                    if len(args) >= 4 and len(args[3]):\n", "                    if len(args) >= 4 and len(args[3]) and len(args[2]):\n"))
fault("c10-dot-spelling-accepted", "C10", "R10f", (BASE, '            and not self.selector.endswith("/.")\n', ""))
twin("c10-twin-dot-spelling-by-slice", "C10", (BASE, 'and not self.selector.endswith("/.")', 'and self.selector[-2:] != "/."'))
fault("c11-empty-cache-shortcut", "C11", "R11f",
      (DIR, "        if time.time() - statval[stat.ST_MTIME] < self.cachetime:\n            try:\n",
       "        if time.time() - statval[stat.ST_MTIME] < self.cachetime:\n            if statval[stat.ST_SIZE] < 8:\n                self.fileentries = []\n"
       "                self.fromcache = True\n                return True\n            try:\n"))
fault("c12-selection-failure-keyerror", "C12", "R12g",
      (HMUX, '    raise GopherExceptions.FileNotFound(selector, "no handler found", protocol)\n',
       '    reasons = {type(None): "no such file", tuple: "no handler found"}\n    raise GopherExceptions.FileNotFound(selector, reasons[type(statresult)], protocol)\n'))
fault("c15-falsy-fields-not-cached", "C15", "R15h",
      (GE, "    def populatefromvfs(", "    def __getstate__(self):\n        return {k: v for k, v in self.__dict__.items() if v}\n\n    def populatefromvfs("))
fault("c16-archive-entry-without-inner-handler", "C16", "R16j",
      (ZIP, "    def getentry(self):\n        self._makehandler()\n        return self.handler.getentry()\n",
       "    def getentry(self):\n        if self.appendage is None:\n            return BaseHandler.getentry(self)\n        self._makehandler()\n        return self.handler.getentry()\n"))
fault("c17-content-falsy-is-nothing", "C17", "R17l",
      (TALPY, "\t\telif (not result == simpleTALES.DEFAULTVALUE):\n\t\t\t# We have content, so let's suppress the natural content and output this!\n",
       "\t\telif (result and not result == simpleTALES.DEFAULTVALUE):\n\t\t\t# We have content, so let's suppress the natural content and output this!\n"))
fault("c17-omit-tag-on-any-value", "C17", "R17l", (TALPY, "\t\tif (result is not None and result):\n\t\t\t# Turn tag output off\n", "\t\tif (result is not None):\n\t\t\t# Turn tag output off\n"))
fault("c17-attributes-drop-zero", "C17", "R17l",
      (TALPY, "\t\t\tif (resultVal is None):\n\t\t\t\t# Remove this attribute from the current attributes\n", "\t\t\tif (not resultVal):\n\t\t\t\t# Remove this attribute from the current attributes\n"))
twin("c17-twin-content-args-unpacked", "C17",
     (TALPY, "\t\tresult = self.context.evaluate (args[2], self.originalAttributes)\n\t\tif (result is None):\n\t\t\tif (args[0]):",
      "\t\treplaceFlag = args[0]\n\t\tresult = self.context.evaluate (args[2], self.originalAttributes)\n\t\tif (result is None):\n\t\t\tif (replaceFlag):"))
fault("c19-keys-not-loaded-at-start", "C19", "R19a", (INIT, "            context.load_cert_chain(certfile, keyfile)\n", ""))
fault("c20-refusal-written-outside-the-try", "C20", "R20a",
      (SERVER, "        protohandler = ProtocolMultiplexer.getProtocol(\n            request, self.server, self, self.rfile, self.wfile, self.server.config\n        )\n        try:",
       "        if len(request) > 65536:\n            self.wfile.write(b\"3Request line too long\\t\\terror.host\\t0\\r\\n\")\n            return\n"
       "        protohandler = ProtocolMultiplexer.getProtocol(\n            request, self.server, self, self.rfile, self.wfile, self.server.config\n        )\n        try:"))

# ======================================================================= round h (R03g long status, R04j, R05l, R06k, R07n, R10g, R11a failure path,
# R12a in the file-system view, R14e, R15i/R16k, R16l, R17m/R18g)
fault("c03-status-cut-at-a-byte-offset", "C03", "R03g",
      (GEM, '''        self.wfile.write(f"{code} {meta}\\r\\n".encode(errors="backslashreplace"))''',
       '''        self.wfile.write(f"{code} ".encode() + meta.encode(errors="backslashreplace")[:1024] + b"\\r\\n")'''))
twin("c03-twin-status-cut-at-a-character", "C03",
     (GEM, '''        meta = re.sub(r"[\\r\\n]+", " ", meta)
''', '''        meta = re.sub(r"[\\r\\n]+", " ", meta)[:4096]
'''))
fault("c04-entries-remembered-per-selector", "C04", "R04j",
      (FILE, "    def getentry(self):\n        if not self.entry:", "    _entries = {}\n\n    def getentry(self):\n        if self.selector in self._entries:\n            return self._entries[self.selector]\n        if not self.entry:"),
      (FILE, "        return self.entry\n", "        self._entries[self.selector] = self.entry\n        return self.entry\n"))
fault("c06-rendered-abstracts-remembered", "C06", "R06k",
      (PBASE, "    def renderabstract(self, abstractstring: str) -> str:\n", "    _abstracts = {}\n\n    def renderabstract(self, abstractstring: str) -> str:\n        if abstractstring in self._abstracts:\n            return self._abstracts[abstractstring]\n"),
      (PBASE, "            retval += self.renderobjinfo(absentry)\n        return retval\n", "            retval += self.renderobjinfo(absentry)\n        self._abstracts[abstractstring] = retval\n        return retval\n"))
fault("c07-ignore-pattern-from-an-offset", "C07", "R07n",
      (DIR, "        return not re.search(ignorepatt, pattern)\n", "        return not re.compile(ignorepatt).search(pattern, len(self.selector))\n"))
twin("c07-twin-ignore-pattern-compiled", "C07",
     (DIR, "        return not re.search(ignorepatt, pattern)\n", "        return re.compile(ignorepatt).search(pattern) is None\n"))
fault("c10-expired-cache-touched", "C10", "R10g",
      (DIR, "            self.fromcache = True\n            return True\n        return False\n", "            self.fromcache = True\n            return True\n        os.utime(self.vfs.getfspath(self.cachename))\n        return False\n"),
      (DIR, "import pickle\n", "import os\nimport pickle\n"))
fault("c11-damaged-cache-unlinked-unguarded", "C11", "R11a",
      (DIR, "                # Truncated or corrupt cache file: regenerate the listing.\n                return False\n",
       "                # Truncated or corrupt cache file: regenerate the listing.\n                self.vfs.unlink(self.cachename)\n                return False\n"))
twin("c11-twin-damaged-cache-unlinked-guarded", "C11",
     (DIR, "                # Truncated or corrupt cache file: regenerate the listing.\n                return False\n",
      "                # Truncated or corrupt cache file: regenerate the listing.\n                try:\n                    self.vfs.unlink(self.cachename)\n                except OSError:\n                    pass\n                return False\n"))
fault("c14-empty-cache-file-escapes", "C14", "R14e",
      (DIR, "            except Exception:\n                # Truncated or corrupt cache file", "            except (OSError, pickle.UnpicklingError):\n                # Truncated or corrupt cache file"))
fault("c15-entry-without-the-handlers-vfs", "C15", "R15i",
      (FILE, "self.entry.populatefromfs(self.getselector(), self.statresult, vfs=self.vfs)", "self.entry.populatefromfs(self.getselector(), self.statresult)"))
fault("c16-entry-without-the-handlers-vfs", "C16", "R16k",
      (DIR, "self.entry.populatefromfs(self.getselector(), self.statresult, vfs=self.vfs)", "self.entry.populatefromfs(self.getselector(), self.statresult)"))
fault("c16-member-read-by-request-path", "C16", "R16l",
      (ZIP, "        fp = self.zip.open(item)\n", "        fp = self.zip.open(fspath)\n"))
fault("c17-define-globals-first", "C17", "R17m",
      (TALPY, '''		foundLocals = 0
		for isLocal, varName, varPath in args:
			result = self.context.evaluate (varPath, self.originalAttributes)
			if (isLocal):
''', '''		foundLocals = 0
		for isLocal, varName, varPath in args:
			if (not isLocal):
				self.context.addGlobal (varName, self.context.evaluate (varPath, self.originalAttributes))
		for isLocal, varName, varPath in args:
			if (not isLocal):
				continue
			result = self.context.evaluate (varPath, self.originalAttributes)
			if (isLocal):
'''))
fault("c18-global-keyword-sticks", "C18", "R18g",
      (TALPY, "\t\t\tstmtBits = defineStmt.split (' ')\n\t\t\tisLocal = 1\n", "\t\t\tstmtBits = defineStmt.split (' ')\n"),
      (TALPY, "\t\tcommandArgs = []\n\t\t# We only want to match semi-colons that are not escaped\n", "\t\tcommandArgs = []\n\t\tisLocal = 1\n\t\t# We only want to match semi-colons that are not escaped\n"))
twin("c17-twin-define-scope-named", "C17",
     (TALPY, "\t\t\tstmtBits = defineStmt.split (' ')\n\t\t\tisLocal = 1\n", "\t\t\tstmtBits = defineStmt.split (' ')\n\t\t\tLOCAL = 1\n\t\t\tisLocal = LOCAL\n"))

# ======================================================================= round i (R03k, R06l, R07o, R17k tab, R20f)
SCRIPTEXEC = "pygopherd/handlers/scriptexec.py"
fault("c03-parsed-date-ordered-unguarded", "C03", "R03k",
      (HTTP, "            handler.prepare()\n            self.wfile.write(b\"HTTP/1.0 200 OK\\r\\n\")\n",
       "            handler.prepare()\n            since = email.utils.parsedate_to_datetime(self.httpheaders.get(\"if-modified-since\", \"Thu, 01 Jan 1970 00:00:00 GMT\"))\n"
       "            if datetime.datetime.fromtimestamp(0, datetime.timezone.utc) > since:\n                pass\n            self.wfile.write(b\"HTTP/1.0 200 OK\\r\\n\")\n"),
      (HTTP, "import html\n", "import datetime\nimport email.utils\nimport html\n"))
fault("c06-script-output-in-text-mode", "C06", "R06l",
      (SCRIPTEXEC, "subprocess.run(args, env=newenv, capture_output=True)", "subprocess.run(args, env=newenv, capture_output=True, text=True)"))
twin("c06-twin-script-output-explicit-bytes", "C06",
     (SCRIPTEXEC, "subprocess.run(args, env=newenv, capture_output=True)", "subprocess.run(args, env=newenv, capture_output=True, text=False)"))
fault("c07-link-files-decoded-with-replace", "C07", "R07o",
      (UMN, 'with self.vfs.open(filename, "r", errors="surrogateescape") as fd:', 'with self.vfs.open(filename, "r", errors="replace") as fd:'))
fault("c17-dollar-name-ends-at-any-blank", "C17", "R17k",
      (TALES, "\t\t\t\t\t\t\tendPos = expr.find (' ', position + 1)\n\t\t\t\t\t\t\tif (endPos == -1):\n\t\t\t\t\t\t\t\tendPos = len (expr)\n",
       "\t\t\t\t\t\t\tendPos = min ([p for p in (expr.find (c, position + 1) for c in ' \\t\\n') if p != -1] or [len (expr)])\n"))
fault("c20-context-manager-swallows", "C20", "R20f",
      (PBASE, "class BaseGopherProtocol:\n", "class _Quiet:\n    def __enter__(self):\n        return self\n\n    def __exit__(self, *exc):\n        return len(exc)\n\n\nclass BaseGopherProtocol:\n"))

# ======================================================================= round j (R03b element taint, R04k, R06m, R07p, R08g, R09d, R12h, R15j, R18h, R19c with blocks, R20g)
fault("c03-header-number-parsed-unguarded", "C03", "R03b",
      (WAP, "        fakefile = io.BytesIO()\n", "        limit = int(self.httpheaders.get(\"x-up-devcap-max-pdu\", \"0\"))\n        fakefile = io.BytesIO()\n"))
twin("c03-twin-header-number-parsed-guarded", "C03",
     (WAP, "        fakefile = io.BytesIO()\n",
      "        try:\n            limit = int(self.httpheaders.get(\"x-up-devcap-max-pdu\", \"0\"))\n        except ValueError:\n            limit = 0\n        fakefile = io.BytesIO()\n"))
fault("c04-document-written-to-the-descriptor", "C04", "R04k",
      (BASE, "                fd.write(data)\n", "                os.write(fd.fileno(), data)\n"))
twin("c04-twin-document-written-and-flushed", "C04",
     (BASE, "                fd.write(data)\n", "                fd.write(data)\n                fd.flush()\n"))
fault("c06-request-body-short-read", "C06", "R06m",
      (SPAR, "data = self.rfile.read(content_length)", "data = self.rfile.readline(content_length)"))
fault("c07-filter-refuses-one-letter-names", "C07", "R07p",
      (BASE, "            and not self.selector.endswith(\"/.\")\n", "            and not re.search(\"/.$\", self.selector)\n"),
      (BASE, "import os.path\n", "import os.path\nimport re\n"))
fault("c08-link-value-cut-at-second-equals", "C08", "R08g",
      (UMN, "                entry.setname(line[5:])\n", "                entry.setname(line.split(\"=\")[1])\n"))
fault("c09-directory-named-like-a-map-file", "C09", "R09d",
      (GMAP, "                stat.S_ISDIR(self.statresult[stat.ST_MODE])\n                and self.vfs.isfile", "                stat.S_ISDIR(self.statresult[stat.ST_MODE])\n                and not self.getselector().endswith(\".gophermap\")\n                and self.vfs.isfile"))
fault("c12-log-text-joined-before-formatting", "C12", "R12h",
      (GEXC, "        \"%s [%s/%s] EXCEPTION %s: %s\"\n        % (ipaddr, protostr, handlerstr, exceptionclass, str(exception))\n",
       "        (\"%s [%s/%s] EXCEPTION %s: \" + str(exception))\n        % (ipaddr, protostr, handlerstr, exceptionclass)\n"))
fault("c15-empty-side-file-looks-absent", "C15", "R15j",
      (GE, "        if name in self.ea:\n            return self.ea[name]\n        return default\n", "        return self.ea.get(name) or default\n"))
fault("c18-version-compared-as-text", "C18", "R18h",
      (TALPY, "if sys.version_info[0] > 3 or (sys.version_info[0] == 3 and sys.version_info[1] > 3):\n", "if sys.version[:3] > \"3.3\":\n"))
twin("c18-twin-version-compared-as-tuple", "C18",
     (TALPY, "if sys.version_info[0] > 3 or (sys.version_info[0] == 3 and sys.version_info[1] > 3):\n", "if sys.version_info >= (3, 4):\n"))
twin("c18-twin-version-test-removed", "C18",
     (TALPY, "if sys.version_info[0] > 3 or (sys.version_info[0] == 3 and sys.version_info[1] > 3):\n\tHTML_ENTITIES_PRE_EXPANDED = True\nelse:\n\tHTML_ENTITIES_PRE_EXPANDED = False\n",
      "HTML_ENTITIES_PRE_EXPANDED = True\n"))
fault("c19-drop-inside-a-swallowing-stack", "C19", "R19c",
      (INIT, "    init_security(config)\n", "    with contextlib.ExitStack() as stack:\n        stack.push(lambda *exc: bool(config.has_option(\"pygopherd\", \"pidfile\")))\n        init_security(config)\n"),
      (INIT, "import mimetypes\n", "import contextlib\nimport mimetypes\n"))
twin("c19-twin-drop-inside-a-cleanup-stack", "C19",
     (INIT, "    init_security(config)\n", "    with contextlib.ExitStack() as stack:\n        stack.callback(logger.log, \"start-up steps done\")\n        init_security(config)\n"),
     (INIT, "import mimetypes\n", "import contextlib\nimport mimetypes\n"))
fault("c20-response-buffered-past-the-try", "C20", "R20g",
      (SERVER, "    server: BaseServer\n\n    def handle(self) -> None:\n", "    server: BaseServer\n    wbufsize = 8192\n\n    def handle(self) -> None:\n"))
twin("c20-twin-response-explicitly-unbuffered", "C20",
     (SERVER, "    server: BaseServer\n\n    def handle(self) -> None:\n", "    server: BaseServer\n    wbufsize = 0\n\n    def handle(self) -> None:\n"))

# ======================================================================= round k
fault("c01-map-link-looked-up-without-slash", "C01", "R01f",
      (GMAP, "                            selector.startswith(\"/\")\n                            and probe.isrequestsecure()", "                            probe.isrequestsecure()"))
twin("c01-twin-map-link-slash-by-slice", "C01",
     (GMAP, "                            selector.startswith(\"/\")\n", "                            selector[:1] == \"/\"\n"))
fault("c01-root-rewritten-after-a-failed-chroot", "C01", "R01n",
      (INIT, "        os.chroot(chroot_user)\n        os.chdir(\"/\")\n        logger.log(f\"Chrooted to {chroot_user}\")\n",
       "        try:\n            os.chroot(chroot_user)\n            os.chdir(\"/\")\n            logger.log(f\"Chrooted to {chroot_user}\")\n        except OSError:\n            logger.log(\"chroot refused, continuing\")\n"))
fault("c19-root-rewritten-after-a-failed-chroot", "C19", "R19d",
      (INIT, "        os.chroot(chroot_user)\n        os.chdir(\"/\")\n        logger.log(f\"Chrooted to {chroot_user}\")\n",
       "        try:\n            os.chroot(chroot_user)\n            os.chdir(\"/\")\n            logger.log(f\"Chrooted to {chroot_user}\")\n        except OSError:\n            logger.log(\"chroot refused, continuing\")\n"))
twin("c01-twin-chroot-failure-reported-and-raised", "C01",
     (INIT, "        os.chroot(chroot_user)\n        os.chdir(\"/\")\n        logger.log(f\"Chrooted to {chroot_user}\")\n",
      "        try:\n            os.chroot(chroot_user)\n            os.chdir(\"/\")\n            logger.log(f\"Chrooted to {chroot_user}\")\n        except OSError:\n            logger.log(\"chroot refused\")\n            raise\n"))
twin("c19-twin-chroot-failure-reported-and-raised", "C19",
     (INIT, "        os.chroot(chroot_user)\n        os.chdir(\"/\")\n        logger.log(f\"Chrooted to {chroot_user}\")\n",
      "        try:\n            os.chroot(chroot_user)\n            os.chdir(\"/\")\n            logger.log(f\"Chrooted to {chroot_user}\")\n        except OSError:\n            logger.log(\"chroot refused\")\n            raise\n"))
SIGH = "pygopherd/sighandlers.py"
MBOXH = "pygopherd/handlers/mbox.py"
fault("c03-notfound-text-formatted-twice", "C03", "R03l",
      (GEXC, "        retval = \"'%s' does not exist\" % self.selector\n        if self.comments:\n            retval += \" (%s)\" % self.comments\n",
       "        retval = \"'%s' does not exist\" % self.selector\n        if self.comments:\n            retval = (retval + \" (%s)\") % self.comments\n"))
fault("c12-notfound-text-formatted-twice", "C12", "R12i",
      (GEXC, "        retval = \"'%s' does not exist\" % self.selector\n        if self.comments:\n            retval += \" (%s)\" % self.comments\n",
       "        retval = \"'%s' does not exist\" % self.selector\n        if self.comments:\n            retval = (retval + \" (%s)\") % self.comments\n"))
twin("c03-twin-notfound-text-one-format", "C03",
     (GEXC, "        retval = \"'%s' does not exist\" % self.selector\n        if self.comments:\n            retval += \" (%s)\" % self.comments\n",
      "        if self.comments:\n            retval = \"'%s' does not exist (%s)\" % (self.selector, self.comments)\n        else:\n            retval = \"'%s' does not exist\" % (self.selector,)\n"))
fault("c03-selector-inside-the-format-string", "C03", "R03m",
      (GEXC, "        retval = \"'%s' does not exist\" % self.selector\n", "        retval = (\"'\" + self.selector + \"' does not %s\") % \"exist\"\n"))
fault("c03-selector-formatted-as-template", "C03", "R03m",
      (GEXC, "        retval = \"'%s' does not exist\" % self.selector\n", "        retval = (\"'\" + self.selector + \"' does not {}\").format(\"exist\")\n"))
fault("c11-failure-path-formats-with-the-selector", "C11", "R11g",
      (DIR, "                # Truncated or corrupt cache file: regenerate the listing.\n                return False\n",
       "                # Truncated or corrupt cache file: regenerate the listing.\n                print((\"bad cache below \" + self.selector + \": %s\") % self.cachename)\n                return False\n"))
twin("c11-twin-failure-path-reports-the-selector", "C11",
     (DIR, "                # Truncated or corrupt cache file: regenerate the listing.\n                return False\n",
      "                # Truncated or corrupt cache file: regenerate the listing.\n                print(\"bad cache below %s: %s\" % (self.selector, self.cachename))\n                return False\n"))
fault("c04-any-from-line-is-a-mailbox", "C04", "R04l",
      (MBOXH, "            rb\"From \\s*[^\\s]+\\s+\\w\\w\\w\\s+\\w\\w\\w\\s+\\d?\\d\\s+\"\n", "            rb\"From \\s*[^\\s]+|From \\s*[^\\s]+\\s+\\w\\w\\w\\s+\\w\\w\\w\\s+\\d?\\d\\s+\"\n"))
twin("c04-twin-from-line-pattern-respelled", "C04",
     (MBOXH, "            rb\"From \\s*[^\\s]+\\s+\\w\\w\\w\\s+\\w\\w\\w\\s+\\d?\\d\\s+\"\n", "            rb\"From \\s*\\S+\\s+\\w{3}\\s+\\w{3}\\s+\\d?\\d\\s+\"\n"))
fault("c05-request-line-split-once", "C05", "R05m",
      (HTTP, "        self.requestparts = [arg.strip() for arg in self.request.split(\" \")]\n", "        if not hasattr(self, \"requestparts\"):\n            self.requestparts = [arg.strip() for arg in self.request.split(\" \")]\n"))
fault("c07-names-walked-from-a-set", "C07", "R07q",
      (DIR, "        for file in self.files:\n", "        for file in set(self.files):\n"))
twin("c07-twin-names-walked-from-a-sorted-set", "C07",
     (DIR, "        for file in self.files:\n", "        for file in sorted(set(self.files)):\n"))
fault("c14-peeked-byte-kept-on-the-server", "C14", "R14f",
      (SERVER, "            if sock.recv(1, socket.MSG_PEEK) == b\"\\x16\":\n", "            self.lastpeek = sock.recv(1, socket.MSG_PEEK)\n            if self.lastpeek == b\"\\x16\":\n"))
twin("c14-twin-peeked-byte-in-a-local", "C14",
     (SERVER, "            if sock.recv(1, socket.MSG_PEEK) == b\"\\x16\":\n", "            first = sock.recv(1, socket.MSG_PEEK)\n            if first == b\"\\x16\":\n"))
fault("c16-lookups-remembered-per-archive", "C16", "R16m",
      (ZIP, "        self.invalid_paths = set()\n", "        self.invalid_paths = _seen_missing.setdefault(self.zipfilename, set())\n"),
      (ZIP, "class VFSZip(VFS_Real):\n", "_seen_missing = {}\n\n\nclass VFSZip(VFS_Real):\n"))
fault("c17-step-on-a-sequence-escapes", "C17", "R17k",
      (TALES, "\t\t\t\t\t\tval = temp[int(path)]\n\t\t\t\texcept:\n", "\t\t\t\t\t\tval = temp[int(path)]\n\t\t\t\texcept (KeyError, IndexError, TypeError, AttributeError):\n"))
twin("c17-twin-step-handler-names-exception", "C17",
     (TALES, "\t\t\t\t\t\tval = temp[int(path)]\n\t\t\t\texcept:\n", "\t\t\t\t\t\tval = temp[int(path)]\n\t\t\t\texcept Exception:\n"))
fault("c20-sigpipe-default-disposition", "C20", "R20h",
      (SIGH, "def setsigtermhandler():\n", "def setsigpipehandler():\n    signal.signal(signal.SIGPIPE, signal.SIG_DFL)\n\n\ndef setsigtermhandler():\n"))
twin("c20-twin-sigpipe-explicitly-ignored", "C20",
     (SIGH, "def setsigtermhandler():\n", "def setsigpipehandler():\n    signal.signal(signal.SIGPIPE, signal.SIG_IGN)\n\n\ndef setsigtermhandler():\n"))

# ======================================================================= round l
HTMLH = "pygopherd/handlers/html.py"
fault("c02-first-line-read-with-a-bound", "C02", "R02i",
      (SERVER, "request = self.rfile.readline().decode(errors=\"surrogateescape\")", "request = self.rfile.readline(8192).decode(errors=\"surrogateescape\")"))
fault("c06-gemini-query-form-decoded", "C06", "R06n",
      (GEM, "        self.searchrequest = urllib.parse.unquote(\n", "        self.searchrequest = urllib.parse.unquote_plus(\n"))
fault("c07-ignored-dot-file-parsed", "C07", "R07r",
      (UMN, "        if super().prep_initfiles_canaddfile(ignorepatt, pattern, file):\n            # If the parent says it's OK, then let's see if it's\n            # a link file.  If yes, process it and return false.\n            if file[0] == \".\":\n",
       "        listed = super().prep_initfiles_canaddfile(ignorepatt, pattern, file)\n        if listed or file[0] == \".\":\n            # If the parent says it's OK, then let's see if it's\n            # a link file.  If yes, process it and return false.\n            if file[0] == \".\":\n"))
fault("c08-sidecar-split-at-every-separator", "C08", "R08h",
      (GE, "\"\\n\".join([x.rstrip() for x in rfile.readlines(20480)]),", "\"\\n\".join([x.rstrip() for x in rfile.read(20480).splitlines()]),"))
fault("c15-sidecar-split-at-every-separator", "C15", "R15e",
      (GE, "\"\\n\".join([x.rstrip() for x in rfile.readlines(20480)]),", "\"\\n\".join([x.rstrip() for x in rfile.read(20480).splitlines()]),"))
twin("c15-twin-sidecar-split-at-line-feeds", "C15",
     (GE, "\"\\n\".join([x.rstrip() for x in rfile.readlines(20480)]),", "\"\\n\".join([x.rstrip() for x in rfile.read().split(\"\\n\")]),"))
fault("c09-url-selector-needs-two-slashes", "C09", "R09a",
      (GMAP, "if selector[0:1] != \"/\" and selector[0:4] != \"URL:\":  # Relative link", "if selector[0:1] != \"/\" and not re.match(\"URL:.+://\", selector):  # Relative link"))
fault("c11-listing-saved-before-the-merge", "C11", "R11h",
      (UMN, "            self.MergeLinkFiles()\n            self.fileentries.sort(key=functools.cmp_to_key(self.entrycmp))\n",
       "            self.savecache()\n            self.MergeLinkFiles()\n            self.fileentries.sort(key=functools.cmp_to_key(self.entrycmp))\n            self.savecache()\n"))
fault("c12-title-unbound-after-a-failed-read", "C12", "R12j",
      (HTMLH, "        with self.vfs.open(self.getselector(), \"rb\") as fp:\n            while not parser.gotcompletetitle:\n                line = fp.readline()\n                if not line:\n                    break\n                # The PY3 HTML parser doesn't handle surrogateescape\n                parser.feed(line.decode(errors=\"replace\"))\n            parser.close()\n",
       "        try:\n            fp = self.vfs.open(self.getselector(), \"rb\")\n        except OSError:\n            pass\n        with fp:\n            while not parser.gotcompletetitle:\n                line = fp.readline()\n                if not line:\n                    break\n                # The PY3 HTML parser doesn't handle surrogateescape\n                parser.feed(line.decode(errors=\"replace\"))\n            parser.close()\n"))
twin("c12-twin-title-read-failure-returns", "C12",
     (HTMLH, "        with self.vfs.open(self.getselector(), \"rb\") as fp:\n            while not parser.gotcompletetitle:\n                line = fp.readline()\n                if not line:\n                    break\n                # The PY3 HTML parser doesn't handle surrogateescape\n                parser.feed(line.decode(errors=\"replace\"))\n            parser.close()\n",
      "        try:\n            fp = self.vfs.open(self.getselector(), \"rb\")\n        except OSError:\n            raise\n        with fp:\n            while not parser.gotcompletetitle:\n                line = fp.readline()\n                if not line:\n                    break\n                # The PY3 HTML parser doesn't handle surrogateescape\n                parser.feed(line.decode(errors=\"replace\"))\n            parser.close()\n"))
fault("c17-slot-fillers-survive-the-expansion", "C17", "R17n",
      (TALPY, "\t\t\t\t\t# End of the macro expansion (if any) so clear the parameters\n\t\t\t\t\tself.slotParameters = {}\n", "\t\t\t\t\t# End of the macro expansion (if any)\n"))
fault("c18-false-condition-skips-the-locals", "C18", "R18i",
      (TALPY, "\t\t\tself.outputTag = 0\n\t\t\tself.tagContent = None\n\t\t\tself.programCounter = self.symbolTable[args[1]]\n\t\t\treturn\n\t\tself.programCounter += 1\n",
       "\t\t\tself.movePCForward,self.movePCBack,self.outputTag,self.originalAttributes,self.currentAttributes,self.repeatVariable,self.tagContent,self.localVarsDefined = self.scopeStack.pop()\n\t\t\tself.programCounter = self.symbolTable[args[1]] + 1\n\t\t\treturn\n\t\tself.programCounter += 1\n"))
fault("c19-failed-bind-tolerated", "C19", "R19e",
      (SERVER, "    def server_bind(self) -> None:\n        super().server_bind()\n", "    def server_bind(self) -> None:\n        try:\n            super().server_bind()\n        except OSError:\n            self.bind_pending = True\n            return\n"))
twin("c19-twin-failed-bind-logged-and-raised", "C19",
     (SERVER, "    def server_bind(self) -> None:\n        super().server_bind()\n", "    def server_bind(self) -> None:\n        try:\n            super().server_bind()\n        except OSError:\n            print(\"bind failed\")\n            raise\n"))
fault("c13-row-built-then-formatted", "C13", "R13e",
      (HTTP, "        retstr += '</TD><TD><FONT SIZE=\"-2\">'\n", "        retstr = (retstr + '</TD><TD><FONT SIZE=\"{size}\">').format(size=\"-2\")\n"))
twin("c13-twin-row-piece-formatted-alone", "C13",
     (HTTP, "        retstr += '</TD><TD><FONT SIZE=\"-2\">'\n", "        retstr += '</TD><TD><FONT SIZE=\"{size}\">'.format(size=\"-2\")\n"))

# ======================================================================= round m
FEXT = "pygopherd/fileext.py"
fault("c01-side-files-next-to-the-root", "C01", "R01f",
      (GE, "            self.handleeaext(self.fspath + \"/\", vfs)  # Add the / so we get /.abs\n", "            self.handleeaext(self.fspath.rstrip(\"/\"), vfs)\n"))
fault("c08-extension-cut-at-its-first-occurrence", "C08", "R08i",
      (FEXT, "            extindex = file.rfind(possible)\n", "            extindex = file.find(possible)\n"))
fault("c13-flag-in-the-count-position", "C13", "R13f",
      (HTMLH, "title = re.sub(r\"[\\s]+\", \" \", parser.titlestr)", "title = re.sub(r\"[\\s]+\", \" \", parser.titlestr, re.ASCII)"))
twin("c13-twin-flag-passed-by-keyword", "C13",
     (HTMLH, "title = re.sub(r\"[\\s]+\", \" \", parser.titlestr)", "title = re.sub(r\"[\\s]+\", \" \", parser.titlestr, flags=re.ASCII)"))
fault("c14-index-store-written-under-a-narrow-guard", "C14", "R14h",
      (ZIP, "        except Exception:\n            # Not only OSError:", "        except OSError:\n            # Not only OSError:"))
fault("c14-negative-lookups-shared-by-all-archives", "C14", "R14g",
      (ZIP, "    invalid_paths: typing.Set[str]\n", "    invalid_paths: typing.Set[str] = set()\n"),
      (ZIP, "        self.invalid_paths = set()\n", ""))
fault("c16-member-path-after-the-last-occurrence", "C16", "R16n",
      (ZIP, "        selector = selector[len(self.zipfilename) :]\n", "        selector = selector.rsplit(self.zipfilename, 1)[-1]\n"))
fault("c17-fill-slot-goes-to-the-outermost-macro", "C17", "R17o",
      (TALPY, "\t\tlocation = len (self.tagStack) - 1\n\t\twhile (ourMacroLocation is None):\n\t\t\tmacroLocation = self.tagStack[location][2]\n\t\t\tif (macroLocation is not None):\n\t\t\t\tourMacroLocation = macroLocation\n\t\t\telse:\n\t\t\t\tlocation -= 1\n\t\t\t\tif (location < 0):\n",
       "\t\tlocation = 0\n\t\twhile (ourMacroLocation is None):\n\t\t\tmacroLocation = self.tagStack[location][2] if location < len (self.tagStack) else None\n\t\t\tif (macroLocation is not None):\n\t\t\t\tourMacroLocation = macroLocation\n\t\t\telse:\n\t\t\t\tlocation += 1\n\t\t\t\tif (location >= len (self.tagStack)):\n"))
fault("c18-text-keyword-kept-as-the-flag", "C18", "R18j",
      (TALPY, "\t\t\telif (attProps[0] == \"text\"):\n\t\t\t\tstructureFlag = 0\n", "\t\t\telif (attProps[0] == \"text\"):\n\t\t\t\tstructureFlag = attProps[0]\n"))
fault("c20-handler-looked-up-while-reporting", "C20", "R20i",
      (SERVER, "            GopherExceptions.log(e, protohandler, None)\n        except Exception as e:", "            GopherExceptions.log(e, protohandler, protohandler.gethandler())\n        except Exception as e:"))
fault("c12-newest-entry-of-an-empty-listing", "C12", "R12k",
      (DIR, "        self.files.sort()\n", "        self.files.sort()\n        self.newest = max(len(f) for f in self.files)\n"))
twin("c12-twin-newest-entry-with-a-default", "C12",
     (DIR, "        self.files.sort()\n", "        self.files.sort()\n        self.newest = max((len(f) for f in self.files), default=0)\n"))
fault("c11-failure-kept-in-the-except-name", "C11", "R11i",
      (DIR, "            except Exception:\n                # Truncated or corrupt cache file: regenerate the listing.\n                return False\n",
       "            except Exception as error:\n                pass\n            if error is not None:\n                return False\n"))

# ======================================================================= round n
fault("c15-zero-size-dropped-from-views", "C15", "R15l",
      (GP, "            if entry.getsize() is not None:\n", "            if entry.getsize():\n"))
fault("c06-typeless-entry-breaks-the-html-row", "C06", "R06p",
      (HTTP, "        if entry.gettype() != \"i\" and entry.gettype() != \"7\":\n            retstr += '<A HREF=\"%s\">' % url\n", "        if entry.gettype() not in \"i7\":\n            retstr += '<A HREF=\"%s\">' % url\n"))
fault("c18-empty-attribute-value-minimised", "C18", "R18h",
      (TALPY, "\t\t\tif (attValue is None):\n\t\t\t\tif (att == self.tal_namespace_omittag):", "\t\t\tif (not attValue):\n\t\t\t\tif (att == self.tal_namespace_omittag):"))
fault("c10-double-slash-selector-accepted", "C10", "R10f",
      (BASE, "            and (self.selector.find(\"//\") == -1)\n", "            and (self.selector.find(\"//\", 1) == -1)\n"))
fault("c19-switch-read-without-getboolean", "C19", "R19f",
      (INIT, "    if config.getboolean(\"pygopherd\", \"usechroot\"):\n", "    if config.get(\"pygopherd\", \"usechroot\") in (\"yes\", \"true\", \"on\", \"1\"):\n"))
fault("c13-data-as-replacement-template", "C13", "R13g",
      (HTTP, "            ).replace(\"GOPHERURL\", gopherurl)\n", "            )\n            retstr = re.sub(\"GOPHERURL\", gopherurl, retstr)\n"))
twin("c13-twin-data-through-str-replace", "C13",
     (HTTP, "            ).replace(\"GOPHERURL\", gopherurl)\n", "            ).replace(\"GOPHERURL\", gopherurl, 1).replace(\"GOPHERURL\", gopherurl)\n"))
fault("c11-cache-opened-outside-the-guard", "C11", "R11a",
      (DIR, "            try:\n                with self.vfs.open(self.cachename, \"rb\") as fp:\n                    self.fileentries = pickle.load(fp)\n", "            fp = self.vfs.open(self.cachename, \"rb\")\n            try:\n                with fp:\n                    self.fileentries = pickle.load(fp)\n"))
fault("c20-selector-in-the-log-format", "C20", "R20j",
      (GEXC, "        \"%s [%s/%s] EXCEPTION %s: %s\"\n        % (ipaddr, protostr, handlerstr, exceptionclass, str(exception))\n",
       "        (\"%s [%s/%s] EXCEPTION %s: %s (serving \" + (protocol.selector if protocol else \"\") + \")\")\n        % (ipaddr, protostr, handlerstr, exceptionclass, str(exception))\n"))
fault("c16-member-date-through-a-validating-constructor", "C16", "R16o",
      (ZIP, "time.mktime(", "datetime.datetime(*zi.date_time).timestamp() or time.mktime("))
fault("c05-protocol-asks-the-real-file-system", "C05", "R05o",
      (PBASE, "    def gethandler(self) -> BaseHandler:\n", "    def selectorexists(self):\n        import os.path\n\n        return os.path.exists(self.config.get(\"pygopherd\", \"root\") + self.selector)\n\n    def gethandler(self) -> BaseHandler:\n"))
fault("c17-nocall-applies-to-intermediate-elements", "C17", "R17p",
      (TALES, "\t\t\t\telif (hasattr (val, \"__call__\")):temp = val()\n\t\t\t\telse: temp = val\n", "\t\t\t\telif (canCall and hasattr (val, \"__call__\")):temp = val()\n\t\t\t\telse: temp = val\n"))
# ======================================================================= round o (R11a generator reader, R07u stat of a cut selector, R19k root memoised before chroot)
_C11_GEN_READER = "    def savecache(self) -> None:\n", "    def readcache(self):\n        with self.vfs.open(self.cachename, \"rb\") as fp:\n            for entry in pickle.load(fp):\n                yield entry\n\n    def savecache(self) -> None:\n"
fault("c11-load-in-a-generator-behind-the-guard", "C11", "R11a",
      (DIR, "                with self.vfs.open(self.cachename, \"rb\") as fp:\n                    self.fileentries = pickle.load(fp)\n", "                self.fileentries = self.readcache()\n"),
      (DIR,) + _C11_GEN_READER)
twin("c11-twin-generator-materialised-under-the-guard", "C11",
     (DIR, "                with self.vfs.open(self.cachename, \"rb\") as fp:\n                    self.fileentries = pickle.load(fp)\n", "                self.fileentries = list(self.readcache())\n"),
     (DIR,) + _C11_GEN_READER)
fault("c07-stat-of-the-selector-cut-at-a-query-mark", "C07", "R07u",
      (HM, "        statresult = vfs.stat(selector)\n", "        statresult = vfs.stat(selector.split(\"?\")[0])\n"))
fault("c07-stat-of-the-case-folded-selector", "C07", "R07u",
      (HM, "        statresult = vfs.stat(selector)\n", "        statresult = vfs.stat(selector.lower())\n"))
twin("c07-twin-stat-through-an-alias", "C07",
     (HM, "        statresult = vfs.stat(selector)\n", "        asked = selector\n        statresult = vfs.stat(asked)\n"))
fault("c19-handlers-warmed-up-before-the-dropper", "C19", "R19k",
      (INIT, "from pygopherd.server import GopherRequestHandler\n", "from pygopherd.server import GopherRequestHandler\nfrom pygopherd.handlers import HandlerMultiplexer\n"),
      (INIT, "    init_signal_handlers()\n    init_security(config)\n", "    init_signal_handlers()\n    HandlerMultiplexer.init_default_handlers(config)\n    init_security(config)\n"))
twin("c19-twin-handlers-warmed-up-inside-the-jail", "C19",
     (INIT, "from pygopherd.server import GopherRequestHandler\n", "from pygopherd.server import GopherRequestHandler\nfrom pygopherd.handlers import HandlerMultiplexer\n"),
     (INIT, "    init_signal_handlers()\n    init_security(config)\n", "    init_signal_handlers()\n    init_security(config)\n    HandlerMultiplexer.init_default_handlers(config)\n"))
