"""Program model: modules, classes, functions, import aliases, MRO, name resolution.

Everything is derived from the *current* sources under the repository root on
every run; nothing is cached between runs and nothing is imported.
"""

from __future__ import annotations

import ast
import builtins
import os
from typing import Dict, List, Optional, Tuple

from . import REPO


class AnalysisError(Exception):
    """The analysis itself could not be carried out (exit 2)."""


BUILTINS = set(dir(builtins))


def dotted(node: ast.AST) -> Optional[str]:
    """'a.b.c' for Name/Attribute chains, 'super().m' for super() calls."""
    if isinstance(node, ast.Name):
        return node.id
    if isinstance(node, ast.Attribute):
        base = dotted(node.value)
        if base is None:
            return None
        return base + "." + node.attr
    if (
        isinstance(node, ast.Call)
        and isinstance(node.func, ast.Name)
        and node.func.id == "super"
    ):
        return "super()"
    return None


def norm(node: ast.AST) -> str:
    """Normalised source text of an expression/statement (position free)."""
    cached = getattr(node, "_pgv_norm", None)
    if cached is not None:
        return cached
    try:
        text = ast.unparse(node)
    except Exception:  # pragma: no cover
        text = ast.dump(node)
    try:
        node._pgv_norm = text
    except Exception:  # pragma: no cover
        pass
    return text


def clear_norm_cache(tree: ast.AST) -> ast.AST:
    """Drop cached normalised texts (needed after copying + rewriting a tree)."""
    for n in ast.walk(tree):
        for attr in ("_pgv_norm", "_pgv_names"):
            if hasattr(n, attr):
                try:
                    delattr(n, attr)
                except AttributeError:
                    pass
    return tree


# module-level names bound to a tuple of (exception) classes, program wide: name -> dotted class names
EXC_ALIASES: Dict[str, List[str]] = {}


_RE_METHODS = {"search", "match", "fullmatch", "sub", "subn", "split", "findall", "finditer"}


def _canonical_regex_calls(tree: ast.Module) -> ast.Module:
    """NAME = re.compile(P) at module or class level (bound once) followed by NAME.search(x) / self.NAME.search(x) is read as
    re.search(P, x): one spelling of a regular-expression test for every rule.  Flags are carried as the flags argument."""
    consts = {}
    counts = {}
    def note(targets, value, prefix):
        for t in targets:
            if isinstance(t, ast.Name):
                counts[prefix + t.id] = counts.get(prefix + t.id, 0) + 1
                if isinstance(value, ast.Call) and dotted(value.func) == "re.compile" and value.args and not value.keywords \
                        and len(value.args) <= 2:
                    consts[prefix + t.id] = value
    for node in tree.body:
        if isinstance(node, ast.Assign):
            note(node.targets, node.value, "")
        elif isinstance(node, ast.AnnAssign) and node.value is not None:
            note([node.target], node.value, "")
        elif isinstance(node, ast.ClassDef):
            for item in node.body:
                if isinstance(item, ast.Assign):
                    note(item.targets, item.value, "self.")
                elif isinstance(item, ast.AnnAssign) and item.value is not None:
                    note([item.target], item.value, "self.")
    consts = {k: v for k, v in consts.items() if counts.get(k) == 1}
    if not consts:
        return tree
    # names assigned anywhere else (function locals, global statements) are left alone
    for n in ast.walk(tree):
        if isinstance(n, ast.Global):
            for nm in n.names:
                consts.pop(nm, None)
        if isinstance(n, (ast.FunctionDef, ast.AsyncFunctionDef)):
            for m in ast.walk(n):
                if isinstance(m, ast.Name) and isinstance(m.ctx, ast.Store):
                    consts.pop(m.id, None)
                if isinstance(m, ast.Attribute) and isinstance(m.ctx, ast.Store) and dotted(m) and dotted(m).startswith(("self.", "cls.")):
                    consts.pop("self." + m.attr, None)

    class T(ast.NodeTransformer):
        def visit_Call(self, node):
            self.generic_visit(node)
            f = node.func
            if isinstance(f, ast.Attribute) and f.attr in _RE_METHODS:
                d = dotted(f.value) or ""
                key = d if d in consts else ("self." + d.split(".", 1)[1] if d.startswith(("self.", "cls.")) and "self." + d.split(".", 1)[1] in consts else None)
                if key is not None and f.attr in ("search", "match", "fullmatch", "findall", "finditer") and (len(node.args) > 1 or node.keywords):
                    key = None  # pos / endpos have no module-level spelling
                if key is not None:
                    comp = consts[key]
                    import copy

                    new = ast.Call(func=ast.Attribute(value=ast.Name(id="re", ctx=ast.Load()), attr=f.attr, ctx=ast.Load()),
                                   args=[copy.deepcopy(comp.args[0])] + list(node.args), keywords=list(node.keywords))
                    if len(comp.args) == 2:
                        new.keywords.append(ast.keyword(arg="flags", value=copy.deepcopy(comp.args[1])))
                    ast.copy_location(new, node)
                    return ast.fix_missing_locations(new)
            return node

    return T().visit(tree)


class FuncInfo:
    def __init__(self, module: "Module", cls: Optional["ClassInfo"], node):
        self.module = module
        self.cls = cls
        self.node = node
        self.name = node.name
        self.params = [a.arg for a in node.args.posonlyargs + node.args.args]
        self.kwonly = [a.arg for a in node.args.kwonlyargs]

    @property
    def qualname(self) -> str:
        if self.cls is not None:
            return f"{self.module.short}.{self.cls.name}.{self.name}"
        return f"{self.module.short}.{self.name}"

    @property
    def where(self) -> str:
        return f"{self.module.relpath}:{self.node.lineno}"

    def __repr__(self):
        return f"<Func {self.qualname}>"


class ClassInfo:
    def __init__(self, module: "Module", node: ast.ClassDef):
        self.module = module
        self.node = node
        self.name = node.name
        self.methods: Dict[str, FuncInfo] = {}
        self.attrs: Dict[str, ast.AST] = {}  # class-level assignments
        self.annotations: Dict[str, ast.AST] = {}
        self.bases: List[object] = []  # ClassInfo or external dotted str
        self._mro: Optional[List["ClassInfo"]] = None

    @property
    def qualname(self) -> str:
        return f"{self.module.short}.{self.name}"

    def __repr__(self):
        return f"<Class {self.qualname}>"


class Module:
    def __init__(self, name: str, relpath: str, source: str):
        self.name = name  # e.g. pygopherd.handlers.base
        self.relpath = relpath
        self.source = source
        self.tree = _canonical_regex_calls(ast.parse(source, filename=relpath))
        self.imports: Dict[str, str] = {}  # local name -> dotted target
        self.star_imports: List[str] = []
        self.classes: Dict[str, ClassInfo] = {}
        self.functions: Dict[str, FuncInfo] = {}
        self.globals: Dict[str, List[ast.AST]] = {}  # module-level assigned names
        self.all: Optional[List[str]] = None

    @property
    def short(self) -> str:
        # pygopherd.handlers.base -> handlers.base ; simpletal.simpleTAL stays
        if self.name.startswith("pygopherd."):
            return self.name[len("pygopherd."):]
        return self.name

    def __repr__(self):
        return f"<Module {self.name}>"


class Program:
    """All parsed sources plus resolution helpers."""

    PACKAGES = ("pygopherd", "simpletal")

    def __init__(self, root: str = None, overrides: Dict[str, str] = None):
        """overrides: relpath -> source text (used for in-memory variants)."""
        self.root = root or REPO
        self.overrides = overrides or {}
        self.modules: Dict[str, Module] = {}
        self.by_relpath: Dict[str, Module] = {}
        self._load()
        self._index()

    # ------------------------------------------------------------------ load
    def _iter_files(self):
        for pkg in self.PACKAGES:
            base = os.path.join(self.root, pkg)
            if not os.path.isdir(base):
                raise AnalysisError(f"package directory missing: {base}")
            for dirpath, dirnames, filenames in os.walk(base):
                dirnames[:] = sorted(d for d in dirnames if d != "__pycache__")
                for fn in sorted(filenames):
                    if fn.endswith(".py"):
                        full = os.path.join(dirpath, fn)
                        rel = os.path.relpath(full, self.root)
                        yield rel, full
        binp = os.path.join(self.root, "bin", "pygopherd")
        if os.path.isfile(binp):
            yield "bin/pygopherd", binp

    def _load(self):
        for rel, full in self._iter_files():
            if rel in self.overrides:
                src = self.overrides[rel]
            else:
                with open(full, "r", encoding="utf-8", errors="surrogateescape") as fp:
                    src = fp.read()
            if rel == "bin/pygopherd":
                name = "bin.pygopherd"
            else:
                name = rel[:-3].replace(os.sep, ".")
                if name.endswith(".__init__"):
                    name = name[: -len(".__init__")]
            try:
                import warnings

                with warnings.catch_warnings():
                    warnings.simplefilter("ignore")
                    mod = Module(name, rel, src)
            except SyntaxError as e:
                raise AnalysisError(f"cannot parse {rel}: {e}")
            self.modules[name] = mod
            self.by_relpath[rel] = mod

    # ----------------------------------------------------------------- index
    def _index(self):
        for mod in self.modules.values():
            self._index_module(mod)
        # star imports and class bases need all modules indexed first
        for mod in self.modules.values():
            for target in mod.star_imports:
                self._apply_star(mod, target)
        for mod in self.modules.values():
            for cls in mod.classes.values():
                for b in cls.node.bases:
                    d = dotted(b)
                    res = self.resolve_dotted(mod, d) if d else None
                    if res and res[0] == "class":
                        cls.bases.append(res[1])
                    elif res and res[0] == "ext":
                        cls.bases.append(res[1])
                    else:
                        cls.bases.append(d or norm(b))

    def _index_module(self, mod: Module):
        pkg = mod.name.rsplit(".", 1)[0] if "." in mod.name else mod.name

        def handle_import(node):
            if isinstance(node, ast.Import):
                for a in node.names:
                    if a.asname:
                        mod.imports[a.asname] = a.name
                    else:
                        top = a.name.split(".")[0]
                        mod.imports[top] = top
            elif isinstance(node, ast.ImportFrom):
                base = node.module or ""
                if node.level:
                    parts = mod.name.split(".")
                    # relative import
                    is_pkg = mod.relpath.endswith("__init__.py")
                    up = node.level - (1 if is_pkg else 0)
                    anchor = parts[: len(parts) - up] if up else parts
                    if not is_pkg:
                        anchor = parts[: len(parts) - node.level]
                    base = ".".join(anchor + ([node.module] if node.module else []))
                for a in node.names:
                    if a.name == "*":
                        mod.star_imports.append(base)
                    else:
                        mod.imports[a.asname or a.name] = base + "." + a.name

        for node in ast.walk(mod.tree):
            if isinstance(node, (ast.Import, ast.ImportFrom)):
                handle_import(node)

        def visit_body(body):
            for node in body:
                if isinstance(node, ast.ClassDef):
                    ci = ClassInfo(mod, node)
                    mod.classes[node.name] = ci
                    for item in node.body:
                        if isinstance(item, (ast.FunctionDef, ast.AsyncFunctionDef)):
                            ci.methods[item.name] = FuncInfo(mod, ci, item)
                        elif isinstance(item, ast.Assign):
                            for t in item.targets:
                                if isinstance(t, ast.Name):
                                    ci.attrs[t.id] = item.value
                        elif isinstance(item, ast.AnnAssign) and isinstance(
                            item.target, ast.Name
                        ):
                            ci.annotations[item.target.id] = item.annotation
                            if item.value is not None:
                                ci.attrs[item.target.id] = item.value
                elif isinstance(node, (ast.FunctionDef, ast.AsyncFunctionDef)):
                    mod.functions[node.name] = FuncInfo(mod, None, node)
                elif isinstance(node, ast.Assign):
                    for t in node.targets:
                        if isinstance(t, ast.Name) and isinstance(node.value, ast.Tuple) and node.value.elts \
                                and all(dotted(e) for e in node.value.elts):
                            # NAME = (ExcA, mod.ExcB): usable in `except NAME:` / contextlib.suppress(*NAME)
                            EXC_ALIASES[t.id] = [dotted(e) for e in node.value.elts]
                        for n in ast.walk(t):
                            if isinstance(n, ast.Name):
                                mod.globals.setdefault(n.id, []).append(node.value)
                        if isinstance(t, ast.Name) and t.id == "__all__":
                            try:
                                mod.all = list(ast.literal_eval(node.value))
                            except Exception:
                                pass
                elif isinstance(node, ast.AnnAssign) and isinstance(node.target, ast.Name):
                    mod.globals.setdefault(node.target.id, []).append(node.value)
                elif isinstance(node, (ast.If, ast.Try)):
                    visit_body(node.body)
                    for h in getattr(node, "handlers", []):
                        visit_body(h.body)
                    visit_body(node.orelse)
                    visit_body(getattr(node, "finalbody", []))

        visit_body(mod.tree.body)

    def _apply_star(self, mod: Module, target: str):
        src = self.modules.get(target)
        if src is None:
            return
        names = src.all
        if names is None:
            names = [n for n in list(src.classes) + list(src.functions) + list(src.globals)
                     if not n.startswith("_")]
        for n in names:
            if n in mod.imports:
                continue
            if target + "." + n in self.modules:
                mod.imports[n] = target + "." + n
            else:
                mod.imports[n] = target + "." + n

    # ------------------------------------------------------------ resolution
    def resolve_dotted(self, mod: Module, name: Optional[str]):
        """Resolve a dotted name used in module `mod`.

        Returns one of ('module', Module), ('class', ClassInfo), ('func', FuncInfo),
        ('global', Module, name), ('ext', dotted) or None.
        """
        if not name:
            return None
        parts = name.split(".")
        head = parts[0]
        cur = None
        if head in mod.classes:
            cur = ("class", mod.classes[head])
        elif head in mod.functions:
            cur = ("func", mod.functions[head])
        elif head in mod.imports:
            cur = self._resolve_abs(mod.imports[head])
        elif head in mod.globals:
            cur = ("global", mod, head)
        elif head in BUILTINS:
            cur = ("ext", "builtins." + head)
        else:
            return None
        for p in parts[1:]:
            cur = self._member(cur, p)
            if cur is None:
                return None
        return cur

    def _resolve_abs(self, absname: str):
        """Absolute dotted name -> resolution (longest module prefix)."""
        parts = absname.split(".")
        for i in range(len(parts), 0, -1):
            prefix = ".".join(parts[:i])
            if prefix in self.modules:
                cur = ("module", self.modules[prefix])
                for p in parts[i:]:
                    cur = self._member(cur, p)
                    if cur is None:
                        return None
                return cur
        if parts[0] in self.PACKAGES:
            return None
        return ("ext", absname)

    def _member(self, cur, p: str):
        kind = cur[0]
        if kind == "module":
            m: Module = cur[1]
            sub = m.name + "." + p
            if p in m.classes:
                return ("class", m.classes[p])
            if p in m.functions:
                return ("func", m.functions[p])
            if sub in self.modules:
                return ("module", self.modules[sub])
            if p in m.imports:
                return self._resolve_abs(m.imports[p])
            if p in m.globals:
                return ("global", m, p)
            return None
        if kind == "class":
            f = self.resolve_method(cur[1], p)
            if f:
                return ("func", f)
            a = self.class_attr(cur[1], p)
            if a is not None:
                return ("classattr", cur[1], p)
            return None
        if kind == "ext":
            return ("ext", cur[1] + "." + p)
        return None

    # ------------------------------------------------------------------- MRO
    def mro(self, cls: ClassInfo) -> List[ClassInfo]:
        if cls._mro is not None:
            return cls._mro
        seqs = []
        for b in cls.bases:
            if isinstance(b, ClassInfo):
                seqs.append(list(self.mro(b)))
        seqs.append([b for b in cls.bases if isinstance(b, ClassInfo)])
        result = [cls]
        seqs = [s for s in seqs if s]
        while seqs:
            for s in seqs:
                cand = s[0]
                if not any(cand in t[1:] for t in seqs):
                    break
            else:
                raise AnalysisError(f"inconsistent MRO for {cls.qualname}")
            result.append(cand)
            for s in seqs:
                if s and s[0] is cand:
                    del s[0]
            seqs = [s for s in seqs if s]
        cls._mro = result
        return result

    def external_bases(self, cls: ClassInfo) -> List[str]:
        out = []
        for c in self.mro(cls):
            for b in c.bases:
                if isinstance(b, str):
                    out.append(b)
        return out

    def resolve_method(self, cls: ClassInfo, name: str, after: ClassInfo = None) -> Optional[FuncInfo]:
        """Method lookup along the MRO; `after` starts the search after that class."""
        mro = self.mro(cls)
        start = 0
        if after is not None:
            if after in mro:
                start = mro.index(after) + 1
            else:
                return None
        for c in mro[start:]:
            if name in c.methods:
                return c.methods[name]
        return None

    def class_attr(self, cls: ClassInfo, name: str):
        for c in self.mro(cls):
            if name in c.attrs:
                return c.attrs[name]
        return None

    def is_subclass(self, cls: ClassInfo, base: ClassInfo) -> bool:
        return base in self.mro(cls)

    def all_classes(self) -> List[ClassInfo]:
        out = []
        for m in self.modules.values():
            out.extend(m.classes.values())
        return out

    def subclasses(self, base: ClassInfo, strict: bool = False) -> List[ClassInfo]:
        out = [c for c in self.all_classes() if self.is_subclass(c, base)]
        if strict:
            out = [c for c in out if c is not base]
        return sorted(out, key=lambda c: c.qualname)

    def find_class(self, qual: str) -> Optional[ClassInfo]:
        """'handlers.base.BaseHandler' or 'pygopherd.handlers.base.BaseHandler'."""
        modname, _, cname = qual.rpartition(".")
        for cand in (modname, "pygopherd." + modname):
            m = self.modules.get(cand)
            if m and cname in m.classes:
                return m.classes[cname]
        return None

    def find_func(self, qual: str) -> Optional[FuncInfo]:
        """'handlers.base.BaseHandler.isrequestsecure' or 'initialization.init_security'."""
        parts = qual.split(".")
        for i in range(len(parts) - 1, 0, -1):
            modname = ".".join(parts[:i])
            for cand in (modname, "pygopherd." + modname):
                m = self.modules.get(cand)
                if not m:
                    continue
                rest = parts[i:]
                if len(rest) == 1 and rest[0] in m.functions:
                    return m.functions[rest[0]]
                if len(rest) == 2 and rest[0] in m.classes:
                    return m.classes[rest[0]].methods.get(rest[1])
        return None

    def all_functions(self) -> List[FuncInfo]:
        out = []
        for m in self.modules.values():
            out.extend(m.functions.values())
            for c in m.classes.values():
                out.extend(c.methods.values())
        return out

    def module_of(self, relpath: str) -> Optional[Module]:
        return self.by_relpath.get(relpath)


def enclosing_function_map(tree: ast.AST) -> Dict[ast.AST, ast.AST]:
    """node -> innermost enclosing FunctionDef (or None)."""
    out = {}

    def rec(node, fn):
        for ch in ast.iter_child_nodes(node):
            out[ch] = fn
            rec(ch, ch if isinstance(ch, (ast.FunctionDef, ast.AsyncFunctionDef)) else fn)

    rec(tree, None)
    return out


def parent_map(tree: ast.AST) -> Dict[ast.AST, ast.AST]:
    out = {}
    for node in ast.walk(tree):
        for ch in ast.iter_child_nodes(node):
            out[ch] = node
    return out
