"""Generic provenance (abstract value) engine.

Context-sensitive, depth-limited, memoised abstract interpretation of repository
functions over a pluggable Domain.  Flow-sensitive inside a function (forward pass,
join at merges, loops evaluated twice); attributes of `self` are the join of every
assignment in the class hierarchy (plus seeds); designated entry fields are joined over
the whole program (field-sensitive).  Calls into the repository are evaluated with
the actual argument values; domain hooks observe every call (sink checks) and give
transfer functions for external callees.
"""

from __future__ import annotations

import ast
from typing import Dict, List, Optional, Tuple

from .loader import ClassInfo, FuncInfo, Program, dotted, norm
from .resolve import Resolver, Target


class TupleVal(tuple):
    """A fixed-length tuple of abstract values (e.g. the result of os.path.split).
    Only destructuring assignment and constant indexing look inside; every other use
    sees the join of the items."""


class RecVal(TupleVal):
    """A NamedTuple instance of the repository: a TupleVal whose items can also be read by field name."""

    fields: tuple = ()

    @classmethod
    def make(cls, fields, vals):
        r = cls(vals)
        r.fields = tuple(fields)
        return r


class IterVal:
    """What a generator function of the repository returns: an iterable of `elem` (which may be a record)."""

    __slots__ = ("elem",)

    def __init__(self, elem):
        self.elem = elem

    def __eq__(self, other):
        return isinstance(other, IterVal) and self.elem == other.elem

    def __hash__(self):
        return hash(("iter", self.elem))


def _own_yields(func: FuncInfo) -> bool:
    cached = getattr(func, "_pgv_isgen", None)
    if cached is None:
        cached = False
        stack = list(func.node.body)
        while stack:
            n = stack.pop()
            if isinstance(n, (ast.Yield, ast.YieldFrom)):
                cached = True
                break
            if isinstance(n, (ast.FunctionDef, ast.AsyncFunctionDef, ast.Lambda, ast.ClassDef)):
                continue
            stack.extend(ast.iter_child_nodes(n))
        try:
            func._pgv_isgen = cached
        except Exception:
            pass
    return cached


def _namedtuple_fields(cls: ClassInfo):
    """(field names, default expressions) of a repository class derived from typing.NamedTuple; None for other classes."""
    if cls is None or cls.methods.get("__new__") or cls.methods.get("__init__"):
        return None
    if not any(isinstance(b, str) and b.split(".")[-1] == "NamedTuple" for b in cls.bases):
        return None
    fields, defaults = [], {}
    for st_ in cls.node.body:
        if isinstance(st_, ast.AnnAssign) and isinstance(st_.target, ast.Name):
            fields.append(st_.target.id)
            if st_.value is not None:
                defaults[st_.target.id] = st_.value
    return (fields, defaults) if fields else None


class Domain:
    """Override in rule modules.  Values must be hashable."""

    def top(self):
        raise NotImplementedError

    def bottom(self):
        return None

    def const(self, value):
        raise NotImplementedError

    def join(self, a, b):
        raise NotImplementedError

    def concat(self, parts: list):
        return self.top()

    def concat_at(self, node, parts: list, eng: "Engine", frame):
        """Like concat, with access to the expression (defaults to concat)."""
        return self.concat(parts)

    def container(self, elems: list):
        """Value of a list/tuple/set literal or comprehension with these element values."""
        v = self.bottom()
        for e in elems:
            v = self.join(v, e)
        return v if v is not None else self.const(())

    def elem(self, v):
        """Element obtained by iterating / indexing a container value."""
        return v

    def subscript(self, base, node: ast.Subscript, index):
        return self.top()

    def attr(self, recv, name: str, node: ast.Attribute, eng: "Engine", frame):
        """Attribute read on a non-self receiver; None -> engine default (top)."""
        return None

    def name(self, ident: str, eng: "Engine", frame):
        """Value of a free (non-local) name; None -> engine default."""
        return None

    def call_ext(self, name: str, call: ast.Call, recv, args: list, kws: dict, eng: "Engine", frame):
        """Transfer for an external callee (name = resolved dotted name or '?.method')."""
        return self.top()

    def call_repo(self, target: Target, call: ast.Call, recv, args: list, kws: dict, eng: "Engine", frame):
        """Return a value to *skip* descending into a repository callee, or None."""
        return None

    def on_call(self, target: Target, call: ast.Call, recv, args: list, kws: dict, eng: "Engine", frame):
        """Observation hook for every call (sink checks)."""

    def on_expr(self, node, value, parts, eng: "Engine", frame):
        """Observation hook for string-building expressions (BinOp %, +, f-strings)."""

    def seed_self_attr(self, concrete: Optional[ClassInfo], attr: str, eng: "Engine"):
        return None

    def param_default(self, func: FuncInfo, param: str, eng: "Engine"):
        return None

    def compare(self, node, vals):
        return self.const(True)

    def refine(self, test, truthy: bool, eng: "Engine", frame) -> dict:
        """Environment overrides that hold when `test` has the given truth value."""
        return {}


class Frame:
    __slots__ = ("func", "concrete", "env", "inst", "ret", "stack", "depth", "yields")

    def __init__(self, func, concrete, env, stack, depth):
        self.func: FuncInfo = func
        self.concrete: Optional[ClassInfo] = concrete
        self.env: Dict[str, object] = env
        self.inst: Dict[str, object] = {}  # self.attr values assigned so far in this frame
        self.ret = None
        self.yields = None
        self.stack: Tuple = stack  # ((func, call node), ...) call chain for reports
        self.depth = depth

    @property
    def chain(self) -> str:
        return " -> ".join(f.qualname for f, _ in self.stack) + (" -> " if self.stack else "") + self.func.qualname


class Engine:
    def __init__(self, prog: Program, resolver: Resolver, domain: Domain, max_depth: int = 14):
        self.prog = prog
        self.resolver = resolver
        self.dom = domain
        self.max_depth = max_depth
        self._memo: Dict = {}
        self._active = set()
        self._attr_memo: Dict = {}
        self._attr_active = set()
        self.field_classes: List[ClassInfo] = []  # classes whose fields are joined program-wide
        self._field_memo: Dict[str, object] = {}
        self._field_active = set()
        self.visited_funcs = set()
        self.quiet = 0  # >0 while evaluating attribute/field/global summaries (no sink reports)

    # --------------------------------------------------------------- helpers
    def collapse(self, v):
        if isinstance(v, IterVal):
            return self.dom.container([self.collapse(v.elem)])
        if isinstance(v, TupleVal):
            out = None
            for item in v:
                out = self.join(out, item)
            return out if out is not None else self.dom.top()
        return v

    def join(self, a, b):
        if a is None and isinstance(b, (IterVal, RecVal)):
            return b
        if b is None and isinstance(a, (IterVal, RecVal)):
            return a
        if isinstance(a, IterVal) and isinstance(b, IterVal):
            return IterVal(self.join(a.elem, b.elem))
        if isinstance(a, RecVal) or isinstance(b, RecVal):
            # records of the same type are joined field by field; None (the other arm of an Optional result) is left out
            if isinstance(a, RecVal) and isinstance(b, RecVal) and a.fields == b.fields:
                return RecVal.make(a.fields, [self.join(x, y) for x, y in zip(a, b)])
            none = self.dom.const(None)
            if isinstance(a, RecVal) and (b is None or b == none):
                return a
            if isinstance(b, RecVal) and (a is None or a == none):
                return b
        a, b = self.collapse(a), self.collapse(b)
        if a is None:
            return b
        if b is None:
            return a
        return self.dom.join(a, b)

    def joinenv(self, e1: Dict, e2: Dict) -> Dict:
        out = {}
        for k in set(e1) | set(e2):
            if k in e1 and k in e2:
                out[k] = self.join(e1[k], e2[k])
            else:
                # assigned on one branch only: join with "unassigned" = keep the value
                out[k] = e1.get(k, e2.get(k))
        return out

    def callsite_values(self, func: FuncInfo, param: str):
        """Join of the values passed for `param` at every resolved call site of func."""
        key = ("callsites", func, param)
        if key in self._attr_memo:
            return self._attr_memo[key]
        if key in self._attr_active:
            return self.dom.bottom()
        self._attr_active.add(key)
        self.quiet += 1
        try:
            params = func.params[1:] if func.cls is not None and func.params[:1] in (["self"], ["cls"]) else func.params
            idx = params.index(param) if param in params else None
            v = None
            for caller in self.prog.all_functions():
                if caller.module.name == "pygopherd.testutil":
                    continue
                for n in ast.walk(caller.node):
                    if not isinstance(n, ast.Call):
                        continue
                    nm = n.func.attr if isinstance(n.func, ast.Attribute) else (n.func.id if isinstance(n.func, ast.Name) else None)
                    if nm != func.name:
                        continue
                    t = self.resolver.resolve(n, caller, caller.cls)
                    if t.kind not in ("repo", "ctor") or func not in t.funcs:
                        continue
                    arg = None
                    if idx is not None and idx < len(n.args):
                        arg = n.args[idx]
                    for k in n.keywords:
                        if k.arg == param:
                            arg = k.value
                    if arg is None:
                        continue
                    env = {}
                    for p in caller.params + caller.kwonly:
                        if p not in ("self", "cls"):
                            pv = self.dom.param_default(caller, p, self) if (caller, p) != (func, param) else None
                            env[p] = pv if pv is not None else self.dom.top()
                    fr = Frame(caller, caller.cls, env, (), 1)
                    # bind locals by a forward pass over the caller, capturing the argument value
                    captured = []
                    orig = self.x_Call

                    def hook(node, f2, _n=n, _arg=arg, _orig=orig):
                        if node is _n:
                            captured.append(self.expr(_arg, f2))
                        return _orig(node, f2)

                    akey = (caller, caller.cls, "cs")
                    if akey in self._active:
                        continue
                    self._active.add(akey)
                    self.x_Call = hook
                    try:
                        self.block(caller.node.body, fr)
                    finally:
                        self.x_Call = orig
                        self._active.discard(akey)
                    for c in captured:
                        v = self.join(v, c)
            if v is None:
                v = self.dom.top()
        finally:
            self.quiet -= 1
            self._attr_active.discard(key)
        self._attr_memo[key] = v
        return v

    # ------------------------------------------------------------- functions
    def eval_func(self, func: FuncInfo, concrete: Optional[ClassInfo], args: Dict[str, object],
                  stack: Tuple = (), depth: int = 0, inst: Dict[str, object] = None):
        """Evaluate a function with parameter values; returns the joined return value."""
        key = (func, concrete, tuple(sorted((k, v) for k, v in args.items())),
               tuple(sorted((inst or {}).items())), self.quiet > 0)
        try:
            hash(key)
        except TypeError:
            key = None
        if key is not None and key in self._memo:
            return self._memo[key]
        akey = (func, concrete)
        if akey in self._active or depth > self.max_depth:
            return self.dom.top()
        self._active.add(akey)
        self.visited_funcs.add(func)
        try:
            env = dict(args)
            # defaults for unbound params
            a = func.node.args
            all_params = [x.arg for x in a.posonlyargs + a.args]
            for p, d in zip(all_params[len(all_params) - len(a.defaults):], a.defaults):
                if p not in env:
                    env[p] = self.expr(d, Frame(func, concrete, {}, stack, depth))
            for p, d in zip([x.arg for x in a.kwonlyargs], a.kw_defaults):
                if p not in env and d is not None:
                    env[p] = self.expr(d, Frame(func, concrete, {}, stack, depth))
            for p in all_params + [x.arg for x in a.kwonlyargs]:
                if p not in env and p not in ("self", "cls"):
                    v = self.dom.param_default(func, p, self)
                    env[p] = v if v is not None else self.dom.top()
            fr = Frame(func, concrete, env, stack, depth)
            if inst:
                fr.inst.update(inst)
            self.block(func.node.body, fr)
            result = fr.ret if fr.ret is not None else self.dom.const(None)
            if _own_yields(func):
                result = IterVal(fr.yields if fr.yields is not None else self.dom.top())
        finally:
            self._active.discard(akey)
        if key is not None:
            self._memo[key] = result
        return result

    # ------------------------------------------------------------ statements
    def block(self, stmts, fr: Frame):
        for st in stmts:
            self.stmt(st, fr)

    def stmt(self, st, fr: Frame):
        if isinstance(st, ast.Expr):
            self.expr(st.value, fr)
        elif isinstance(st, ast.Assign):
            v = self.expr(st.value, fr, keep_tuple=any(isinstance(t, (ast.Tuple, ast.List)) for t in st.targets), keep_rec=True)
            for t in st.targets:
                self.assign(t, v, fr, st)
        elif isinstance(st, ast.AnnAssign):
            if st.value is not None:
                self.assign(st.target, self.expr(st.value, fr), fr, st)
        elif isinstance(st, ast.AugAssign):
            old = self.expr(_load(st.target), fr)
            new = self.expr(st.value, fr)
            if isinstance(st.op, ast.Add):
                v = self.dom.concat([old, new])
                self.dom.on_expr(st, v, [old, new], self, fr)
            else:
                v = self.dom.top()
            self.assign(st.target, v, fr, st)
        elif isinstance(st, ast.Return):
            v = self.expr(st.value, fr, keep_rec=True) if st.value is not None else self.dom.const(None)
            fr.ret = self.join(fr.ret, v)
        elif isinstance(st, ast.If):
            self.expr(st.test, fr)
            base_env, base_inst = dict(fr.env), dict(fr.inst)
            fr.env.update(self.dom.refine(st.test, True, self, fr))
            self.block(st.body, fr)
            env1, inst1 = fr.env, fr.inst
            fr.env, fr.inst = dict(base_env), dict(base_inst)
            fr.env.update(self.dom.refine(st.test, False, self, fr))
            self.block(st.orelse, fr)
            body_exits = _always_exits(st.body)
            else_exits = _always_exits(st.orelse) if st.orelse else False
            if body_exits and not else_exits:
                pass  # the code after the `if` runs only when the test was false
            elif else_exits and not body_exits:
                fr.env, fr.inst = env1, inst1
            else:
                fr.env = self.joinenv(env1, fr.env)
                fr.inst = self.joinenv(inst1, fr.inst)
        elif isinstance(st, (ast.For, ast.AsyncFor)):
            it = self.expr(st.iter, fr, keep_iter=True)
            for _ in range(2):
                before_env, before_inst = dict(fr.env), dict(fr.inst)
                self.assign(st.target, it.elem if isinstance(it, IterVal) else self.dom.elem(it), fr, st)
                self.block(st.body, fr)
                fr.env = self.joinenv(before_env, fr.env)
                fr.inst = self.joinenv(before_inst, fr.inst)
            self.block(st.orelse, fr)
        elif isinstance(st, ast.While):
            for _ in range(2):
                before_env, before_inst = dict(fr.env), dict(fr.inst)
                self.expr(st.test, fr)
                self.block(st.body, fr)
                fr.env = self.joinenv(before_env, fr.env)
                fr.inst = self.joinenv(before_inst, fr.inst)
            self.block(st.orelse, fr)
        elif isinstance(st, (ast.With, ast.AsyncWith)):
            for item in st.items:
                v = self.expr(item.context_expr, fr)
                if item.optional_vars is not None:
                    self.assign(item.optional_vars, v, fr, st)
            self.block(st.body, fr)
        elif isinstance(st, ast.Try):
            base_env, base_inst = dict(fr.env), dict(fr.inst)
            self.block(st.body, fr)
            envs, insts = [fr.env], [fr.inst]
            for h in st.handlers:
                fr.env, fr.inst = self.joinenv(base_env, envs[0]), self.joinenv(base_inst, insts[0])
                if h.name:
                    fr.env[h.name] = self.dom.call_ext("<exception>", None, None, [], {}, self, fr)
                self.block(h.body, fr)
                envs.append(fr.env)
                insts.append(fr.inst)
            fr.env, fr.inst = envs[0], insts[0]
            self.block(st.orelse, fr)
            for e, i in zip(envs[1:], insts[1:]):
                fr.env = self.joinenv(fr.env, e)
                fr.inst = self.joinenv(fr.inst, i)
            self.block(st.finalbody, fr)
        elif isinstance(st, ast.Raise):
            if st.exc is not None:
                self.expr(st.exc, fr)
        elif isinstance(st, ast.Assert):
            self.expr(st.test, fr)
        elif isinstance(st, (ast.FunctionDef, ast.AsyncFunctionDef, ast.ClassDef, ast.Pass, ast.Break,
                             ast.Continue, ast.Global, ast.Nonlocal, ast.Import, ast.ImportFrom, ast.Delete)):
            pass
        else:
            for n in ast.iter_child_nodes(st):
                if isinstance(n, ast.expr):
                    self.expr(n, fr)

    def assign(self, target, value, fr: Frame, stmt=None):
        if not isinstance(target, (ast.Tuple, ast.List)) and not (isinstance(value, RecVal) and isinstance(target, ast.Name)):
            value = self.collapse(value)
        if isinstance(target, ast.Name):
            for k in [k for k in fr.env if k.startswith(target.id + ".")]:
                del fr.env[k]  # what was known about fields of the previous value
            globs = _globals_of(fr.func)
            if target.id in globs:
                fr.env["<global>" + target.id] = value
            fr.env[target.id] = value
        elif isinstance(target, ast.Attribute):
            d = dotted(target)
            if d and d.startswith("self.") and d.count(".") == 1:
                fr.inst[target.attr] = value
            # writes to fields of other objects are picked up by field()
        elif isinstance(target, (ast.Tuple, ast.List)):
            if isinstance(value, TupleVal) and len(value) == len(target.elts) \
                    and not any(isinstance(e, ast.Starred) for e in target.elts):
                for e, v in zip(target.elts, value):
                    self.assign(e, v, fr, stmt)
                return
            value = self.collapse(value)
            for e in target.elts:
                self.assign(e.value if isinstance(e, ast.Starred) else e, self.dom.elem(value), fr, stmt)
        elif isinstance(target, ast.Subscript):
            # container element write: join into the container variable
            base = target.value
            if isinstance(base, ast.Name) and base.id in fr.env:
                fr.env[base.id] = self.join(fr.env[base.id], self.dom.container([value]))
            elif isinstance(base, ast.Attribute) and dotted(base) and dotted(base).startswith("self."):
                cur = fr.inst.get(base.attr)
                fr.inst[base.attr] = self.join(cur, self.dom.container([value]))

    # ----------------------------------------------------------- expressions
    def expr(self, node, fr: Frame, keep_tuple: bool = False, keep_rec: bool = False, keep_iter: bool = False):
        v = self._expr(node, fr)
        if isinstance(v, IterVal):
            return v if keep_iter else self.collapse(v)
        if isinstance(v, RecVal) and (keep_rec or keep_tuple):
            return v
        if isinstance(v, TupleVal) and not keep_tuple:
            return self.collapse(v)
        return v

    def _expr(self, node, fr: Frame):
        if node is None:
            return self.dom.const(None)
        m = getattr(self, "x_" + type(node).__name__, None)
        if m is None:
            for n in ast.iter_child_nodes(node):
                if isinstance(n, ast.expr):
                    self.expr(n, fr)
            return self.dom.top()
        return m(node, fr)

    def x_Constant(self, node, fr):
        return self.dom.const(node.value)

    def x_Name(self, node, fr):
        if node.id in fr.env:
            return fr.env[node.id]
        v = self.dom.name(node.id, self, fr)
        if v is not None:
            return v
        mod = fr.func.module
        if node.id in mod.globals:
            # module-level variable: join of its module-level values and of every
            # `global` write in the module's functions
            return self.module_global(mod, node.id, fr)
        if node.id in ("True", "False", "None"):
            return self.dom.const({"True": True, "False": False, "None": None}[node.id])
        return self.dom.top()

    def module_global(self, mod, name: str, fr: Frame):
        self.quiet += 1
        try:
            return self._module_global(mod, name, fr)
        finally:
            self.quiet -= 1

    def _module_global(self, mod, name: str, fr: Frame):
        key = ("glob", mod.name, name)
        if key in self._attr_memo:
            return self._attr_memo[key]
        if key in self._attr_active:
            return self.dom.bottom()
        self._attr_active.add(key)
        try:
            v = None
            pseudo = Frame(_module_pseudo(mod), None, {}, (), 0)
            for val in mod.globals.get(name, []):
                if val is not None:
                    v = self.join(v, self.expr(val, pseudo))
            for f in list(mod.functions.values()) + [m for c in mod.classes.values() for m in c.methods.values()]:
                if name in _globals_of(f):
                    for n in ast.walk(f.node):
                        if isinstance(n, ast.Assign) and any(isinstance(t, ast.Name) and t.id == name for t in n.targets):
                            sub = Frame(f, f.cls, {}, (), 0)
                            v = self.join(v, self.expr(n.value, sub))
            if v is None:
                v = self.dom.top()
        finally:
            self._attr_active.discard(key)
        self._attr_memo[key] = v
        return v

    def x_Attribute(self, node, fr):
        d = dotted(node)
        if d and d.startswith("self.") and d.count(".") == 1:
            if node.attr in fr.inst:
                local = fr.inst[node.attr]
                # an attribute assigned earlier in this frame on every path shadows the class-wide join
                return local
            return self.self_attr(fr.concrete or fr.func.cls, node.attr, fr)
        if d:
            res = self.prog.resolve_dotted(fr.func.module, d) if not d.startswith("self") and d.split(".")[0] not in fr.env else None
            if res is not None:
                if res[0] == "global":
                    return self.module_global(res[1], res[2], fr)
                if res[0] == "ext":
                    return self.dom.call_ext("<attr>" + res[1], None, None, [], {}, self, fr)
                if res[0] in ("class", "func", "module"):
                    return self.dom.const(True)
                if res[0] == "classattr":
                    a = self.prog.class_attr(res[1], res[2])
                    return self.expr(a, Frame(_module_pseudo(res[1].module), None, {}, (), 0))
        if d and d in fr.env:
            return fr.env[d]  # a field of a local record that a test has told something about
        recv = self.expr(node.value, fr, keep_rec=True)
        if isinstance(recv, RecVal):
            if node.attr in recv.fields:
                return recv[recv.fields.index(node.attr)]
            recv = self.collapse(recv)
        v = self.dom.attr(recv, node.attr, node, self, fr)
        if v is not None:
            return v
        return self.dom.top()

    def self_attr(self, concrete: Optional[ClassInfo], attr: str, fr: Frame = None):
        self.quiet += 1
        try:
            return self._self_attr(concrete, attr, fr)
        finally:
            self.quiet -= 1

    def _self_attr(self, concrete: Optional[ClassInfo], attr: str, fr: Frame = None):
        key = (concrete, attr)
        if key in self._attr_memo:
            return self._attr_memo[key]
        if key in self._attr_active:
            return self.dom.bottom()
        self._attr_active.add(key)
        try:
            v = self.dom.seed_self_attr(concrete, attr, self)
            if v is None and concrete is not None:
                # class-level attribute
                ca = self.prog.class_attr(concrete, attr)
                if ca is not None:
                    owner = next(c for c in self.prog.mro(concrete) if attr in c.attrs)
                    v = self.join(v, self.expr(ca, Frame(_module_pseudo(owner.module), None, {}, (), 0)))
                # every `self.attr = e` in the hierarchy
                for c in self.prog.mro(concrete):
                    for m in c.methods.values():
                        if self.prog.resolve_method(concrete, m.name) is not m and m.name != "__init__":
                            # overridden methods still count when reached through super(); keep them
                            pass
                        for val, sub_fr in self._self_assignments(m, concrete, attr):
                            v = self.join(v, val)
            if v is None:
                v = self.dom.top()
        finally:
            self._attr_active.discard(key)
        self._attr_memo[key] = v
        return v

    def _self_assignments(self, method: FuncInfo, concrete, attr: str):
        """Values assigned to self.<attr> inside `method` (evaluated flow-sensitively by
        running the method body with default parameter values and recording writes)."""
        has = False
        for n in ast.walk(method.node):
            if isinstance(n, ast.Attribute) and isinstance(n.ctx, ast.Store) and n.attr == attr and dotted(n.value) == "self":
                has = True
                break
        if not has:
            return []
        out = []
        rec = _Recorder(self, attr, out)
        akey = (method, concrete, "rec", attr)
        if akey in self._active:
            return []
        self._active.add(akey)
        try:
            env = {}
            a = method.node.args
            for p in [x.arg for x in a.posonlyargs + a.args + a.kwonlyargs]:
                if p in ("self", "cls"):
                    continue
                pv = self.dom.param_default(method, p, self)
                env[p] = pv if pv is not None else self.dom.top()
            fr = Frame(method, concrete, env, (), 1)
            rec.run(method.node.body, fr)
        finally:
            self._active.discard(akey)
        return out

    def field(self, attr: str, fr: Frame = None):
        self.quiet += 1
        try:
            return self._field(attr, fr)
        finally:
            self.quiet -= 1

    def _field(self, attr: str, fr: Frame = None):
        """Program-wide join of a field of the designated field classes (GopherEntry…)."""
        if attr in self._field_memo:
            return self._field_memo[attr]
        if attr in self._field_active:
            return self.dom.bottom()
        self._field_active.add(attr)
        try:
            v = None
            for cls in self.field_classes:
                for sub in self.prog.subclasses(cls):
                    if (sub, attr) not in self._attr_active:
                        x = self.self_attr(sub, attr)
                        v = self.join(v, x)
            # writes through other receivers: <expr>.attr = value anywhere in the program
            for f in self.prog.all_functions():
                if f.module.name == "pygopherd.testutil":
                    continue
                for n in ast.walk(f.node):
                    if isinstance(n, ast.Assign):
                        for t in n.targets:
                            if isinstance(t, ast.Attribute) and t.attr == attr and dotted(t.value) != "self":
                                out = []
                                rec = _Recorder(self, attr, out, any_receiver=True)
                                akey = (f, f.cls, "frec", attr)
                                if akey in self._active:
                                    continue
                                self._active.add(akey)
                                try:
                                    env = {}
                                    a = f.node.args
                                    for p in [x.arg for x in a.posonlyargs + a.args + a.kwonlyargs]:
                                        if p in ("self", "cls"):
                                            continue
                                        pv = self.dom.param_default(f, p, self)
                                        env[p] = pv if pv is not None else self.dom.top()
                                    rec.run(f.node.body, Frame(f, f.cls, env, (), 1))
                                finally:
                                    self._active.discard(akey)
                                for val, _ in out:
                                    v = self.join(v, val)
                                break
            if v is None:
                v = self.dom.top()
        finally:
            self._field_active.discard(attr)
        self._field_memo[attr] = v
        return v

    def x_BinOp(self, node, fr):
        left = self.expr(node.left, fr)
        right = self.expr(node.right, fr)
        if isinstance(node.op, ast.Add):
            v = self.dom.concat_at(node, [left, right], self, fr)
            self.dom.on_expr(node, v, [left, right], self, fr)
            return v
        if isinstance(node.op, ast.Mod):
            # "fmt" % args
            parts = [left]
            if isinstance(node.right, ast.Tuple):
                parts += [self.expr(e, fr) for e in node.right.elts]
            else:
                parts.append(right)
            v = self.dom.concat(parts)
            self.dom.on_expr(node, v, parts, self, fr)
            return v
        return self.dom.top()

    def x_JoinedStr(self, node, fr):
        parts = []
        for v in node.values:
            if isinstance(v, ast.FormattedValue):
                parts.append(self.expr(v.value, fr))
            else:
                parts.append(self.expr(v, fr))
        out = self.dom.concat(parts)
        self.dom.on_expr(node, out, parts, self, fr)
        return out

    def x_FormattedValue(self, node, fr):
        return self.expr(node.value, fr)

    def x_BoolOp(self, node, fr):
        v = None
        if isinstance(node.op, ast.And):
            saved = dict(fr.env)
            for e in node.values:
                v = self.join(v, self.expr(e, fr))
                fr.env.update(self.dom.refine(e, True, self, fr))
            fr.env = saved
            return v
        for e in node.values:
            v = self.join(v, self.expr(e, fr))
        return v

    def x_IfExp(self, node, fr):
        self.expr(node.test, fr)
        return self.join(self.expr(node.body, fr), self.expr(node.orelse, fr))

    def x_UnaryOp(self, node, fr):
        v = self.expr(node.operand, fr)
        if isinstance(node.op, ast.Not):
            return self.dom.const(True)
        return v

    def x_Compare(self, node, fr):
        vals = [self.expr(node.left, fr)] + [self.expr(c, fr) for c in node.comparators]
        return self.dom.compare(node, vals)

    def x_Subscript(self, node, fr):
        base = self.expr(node.value, fr, keep_tuple=True)
        if isinstance(base, TupleVal):
            if isinstance(node.slice, ast.Constant) and isinstance(node.slice.value, int) \
                    and -len(base) <= node.slice.value < len(base):
                return base[node.slice.value]
            base = self.collapse(base)
        idx = None
        if not isinstance(node.slice, ast.Slice):
            idx = self.expr(node.slice, fr)
        else:
            for p in (node.slice.lower, node.slice.upper, node.slice.step):
                if p is not None:
                    self.expr(p, fr)
        return self.dom.subscript(base, node, idx)

    def _elts(self, node, fr):
        return self.dom.container([self.expr(e.value if isinstance(e, ast.Starred) else e, fr) for e in node.elts])

    x_List = x_Tuple = x_Set = _elts

    def x_Dict(self, node, fr):
        vals = [self.expr(v, fr) for v in node.values]
        for k in node.keys:
            if k is not None:
                self.expr(k, fr)
        return self.dom.container(vals)

    def _comp(self, node, fr):
        saved = dict(fr.env)
        for g in node.generators:
            it = self.expr(g.iter, fr)
            self.assign(g.target, self.dom.elem(it), fr)
            for c in g.ifs:
                self.expr(c, fr)
        if isinstance(node, ast.DictComp):
            self.expr(node.key, fr)
            v = self.expr(node.value, fr)
        else:
            v = self.expr(node.elt, fr)
        fr.env = saved
        return self.dom.container([v])

    x_ListComp = x_SetComp = x_GeneratorExp = x_DictComp = _comp

    def x_NamedExpr(self, node, fr):
        v = self.expr(node.value, fr)
        self.assign(node.target, v, fr)
        return v

    def x_Starred(self, node, fr):
        return self.expr(node.value, fr)

    def x_Yield(self, node, fr):
        v = self.expr(node.value, fr, keep_rec=True) if node.value is not None else self.dom.const(None)
        fr.yields = self.join(fr.yields, v)
        return self.dom.top()

    def x_YieldFrom(self, node, fr):
        v = self.expr(node.value, fr, keep_iter=True)
        fr.yields = self.join(fr.yields, v.elem if isinstance(v, IterVal) else self.dom.elem(v))
        return self.dom.top()

    def x_Lambda(self, node, fr):
        return self.dom.top()

    # ------------------------------------------------------------------ calls
    def x_Call(self, node: ast.Call, fr: Frame):
        target = self.resolver.resolve(node, fr.func, fr.concrete)
        recv = None
        if isinstance(node.func, ast.Attribute):
            rd = dotted(node.func.value)
            if rd not in ("self", "super()"):
                recv = self.expr(node.func.value, fr, keep_rec=True)
        recv_rec = recv if isinstance(recv, RecVal) else None
        if recv_rec is not None:
            recv = self.collapse(recv)
        args = [self.expr(a.value if isinstance(a, ast.Starred) else a, fr) for a in node.args]
        kws = {k.arg: self.expr(k.value, fr) for k in node.keywords}
        self.dom.on_call(target, node, recv, args, kws, self, fr)
        if target.kind == "ctor" and target.cls is not None and not any(isinstance(a, ast.Starred) for a in node.args) \
                and all(k.arg is not None for k in node.keywords):
            nt = _namedtuple_fields(target.cls)
            if nt is not None and len(args) <= len(nt[0]) and all(k in nt[0] for k in kws):
                vals = {f: v for f, v in zip(nt[0], args)}
                vals.update(kws)
                for f in nt[0]:
                    if f not in vals and f in nt[1]:
                        vals[f] = self.expr(nt[1][f], Frame(_module_pseudo(target.cls.module), None, {}, (), 0))
                if all(f in vals for f in nt[0]):
                    return RecVal.make(nt[0], [self.collapse(vals[f]) for f in nt[0]])
        if target.kind in ("repo", "ctor") and target.funcs:
            skip = self.dom.call_repo(target, node, recv, args, kws, self, fr)
            if skip is not None:
                return skip
            result = None
            for callee in target.funcs:
                if callee is None:
                    continue
                result = self.join(result, self._call_repo(callee, target, node, recv, args, kws, fr, recv_rec=recv_rec))
            if target.kind == "ctor":
                return self.dom.call_ext("<ctor>" + (target.cls.qualname if target.cls else "?"), node, recv, args, kws, self, fr)
            return result if result is not None else self.dom.top()
        name = target.ext if target.kind == "ext" else ("?." + node.func.attr if isinstance(node.func, ast.Attribute) else (target.text or "?"))
        return self.dom.call_ext(name, node, recv, args, kws, self, fr)

    def _call_repo(self, callee: FuncInfo, target: Target, node, recv, args, kws, fr: Frame, recv_rec=None):
        params = list(callee.params)
        avals = list(args)
        is_self_call = target.bound_cls is not None
        explicit_self = (not is_self_call and callee.cls is not None and target.kind == "repo"
                         and node.args and dotted(node.args[0]) == "self")
        if callee.cls is not None:
            if explicit_self:
                avals = avals[1:]
            if params and params[0] in ("self", "cls"):
                params = params[1:]
        env = {}
        for p, v in zip(params, avals):
            env[p] = v
        if len(avals) > len(params) and callee.node.args.vararg:
            env[callee.node.args.vararg.arg] = self.dom.container(avals[len(params):])
        for k, v in kws.items():
            if k is not None:
                env[k] = v
        if is_self_call or explicit_self:
            concrete = target.bound_cls or fr.concrete
            inst = dict(fr.inst)
        else:
            concrete = callee.cls
            inst = None
            if recv_rec is not None and callee.cls is not None:
                nt = _namedtuple_fields(callee.cls)
                if nt is not None and tuple(nt[0]) == tuple(recv_rec.fields):
                    # a method of a record: self.<field> is the field's value
                    inst = dict(zip(recv_rec.fields, recv_rec))
        return self.eval_func(callee, concrete, env, fr.stack + ((fr.func, node),), fr.depth + 1, inst=inst)


class _Recorder:
    """Runs a method body and records the values assigned to one attribute."""

    def __init__(self, eng: Engine, attr: str, out: list, any_receiver: bool = False):
        self.eng = eng
        self.attr = attr
        self.out = out
        self.any = any_receiver

    def run(self, body, fr: Frame):
        eng = self.eng
        orig_assign = eng.assign

        def assign(target, value, f, stmt=None):
            if isinstance(target, ast.Attribute) and target.attr == self.attr and f is fr:
                if dotted(target.value) == "self" or self.any:
                    self.out.append((value, f))
            return orig_assign(target, value, f, stmt)

        eng.assign = assign
        try:
            eng.block(body, fr)
        finally:
            eng.assign = orig_assign


def _always_exits(stmts) -> bool:
    if not stmts:
        return False
    last = stmts[-1]
    if isinstance(last, (ast.Return, ast.Raise, ast.Continue, ast.Break)):
        return True
    if isinstance(last, ast.If):
        return _always_exits(last.body) and _always_exits(last.orelse)
    return False


def _load(target):
    """Copy of an assignment target usable as a load expression."""
    import copy

    t = copy.copy(target)
    if hasattr(t, "ctx"):
        t.ctx = ast.Load()
    return t


def _globals_of(func: FuncInfo) -> set:
    g = getattr(func, "_globals", None)
    if g is None:
        g = set()
        for n in ast.walk(func.node):
            if isinstance(n, ast.Global):
                g.update(n.names)
        func._globals = g
    return g


def _module_pseudo(mod) -> FuncInfo:
    from .structure import module_func

    return module_func(mod)
