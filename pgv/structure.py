"""Structural helpers over the AST: enclosing try/loop/with, handler completion."""

from __future__ import annotations

import ast
from typing import Dict, List, Optional, Tuple

from .loader import FuncInfo, Module, dotted, norm
from .paths import Walker, exc_matches, handler_names


def parents(root: ast.AST) -> Dict[ast.AST, ast.AST]:
    cached = getattr(root, "_pgv_parents", None)
    if cached is not None:
        return cached
    out = {}
    for node in ast.walk(root):
        for ch in ast.iter_child_nodes(node):
            out[ch] = node
    try:
        root._pgv_parents = out
    except Exception:
        pass
    return out


def ancestors(root: ast.AST, node: ast.AST):
    pm = parents(root)
    node = getattr(node, "_pgv_origin", node)  # a try standing for `with contextlib.suppress(...)`
    cur = pm.get(node)
    while cur is not None:
        yield cur
        cur = pm.get(cur)


def field_of(parent: ast.AST, child: ast.AST) -> Optional[str]:
    """Name of the field of `parent` that (transitively by list) holds `child`."""
    for name, value in ast.iter_fields(parent):
        if value is child:
            return name
        if isinstance(value, list) and any(v is child for v in value):
            return name
    return None


def enclosing(root: ast.AST, node: ast.AST) -> List[Tuple[ast.AST, str]]:
    """[(ancestor, field-through-which-node-is-reached), ...] innermost first."""
    pm = parents(root)
    out = []
    child = node
    cur = pm.get(node)
    while cur is not None:
        out.append((cur, field_of(cur, child)))
        child = cur
        cur = pm.get(cur)
    return out


def enclosing_tries(root: ast.AST, node: ast.AST) -> List[ast.Try]:
    """Try statements whose *body* contains node (innermost first), not crossing a def."""
    out = []
    for anc, field in enclosing(root, node):
        if isinstance(anc, (ast.FunctionDef, ast.AsyncFunctionDef, ast.Lambda, ast.ClassDef)) and anc is not root:
            break
        if isinstance(anc, ast.Try) and field == "body":
            out.append(anc)
        if isinstance(anc, (ast.With, ast.AsyncWith)) and field == "body":
            from .paths import suppress_try

            st_ = suppress_try(anc)
            if st_ is not None:
                out.append(st_)
    return out


def enclosing_handlers(root: ast.AST, node: ast.AST) -> List[ast.ExceptHandler]:
    out = []
    for anc, field in enclosing(root, node):
        if isinstance(anc, (ast.FunctionDef, ast.AsyncFunctionDef, ast.Lambda)) and anc is not root:
            break
        if isinstance(anc, ast.ExceptHandler):
            out.append(anc)
    return out


def enclosing_loops(root: ast.AST, node: ast.AST) -> List[ast.AST]:
    out = []
    for anc, field in enclosing(root, node):
        if isinstance(anc, (ast.FunctionDef, ast.AsyncFunctionDef, ast.Lambda)) and anc is not root:
            break
        if isinstance(anc, (ast.For, ast.While, ast.AsyncFor)) and field == "body":
            out.append(anc)
    return out


def enclosing_withs(root: ast.AST, node: ast.AST) -> List[ast.With]:
    out = []
    for anc, field in enclosing(root, node):
        if isinstance(anc, (ast.FunctionDef, ast.AsyncFunctionDef, ast.Lambda)) and anc is not root:
            break
        if isinstance(anc, (ast.With, ast.AsyncWith)) and field == "body":
            out.append(anc)
    return out


def is_suppress_with(w: ast.With) -> List[str]:
    """Exception names suppressed by `with contextlib.suppress(...)`; [] if none."""
    out = []
    for item in w.items:
        ce = item.context_expr
        if isinstance(ce, ast.Call):
            d = dotted(ce.func) or ""
            if d.split(".")[-1] == "suppress":
                out.extend(dotted(a) or norm(a) for a in ce.args)
    return out


def handler_completes(walker: Walker, func: FuncInfo, handler: ast.ExceptHandler, concrete=None) -> List[str]:
    """Ways the handler body can complete without propagating an exception or ending
    the process: returns descriptions of such paths ([] = always raises/exits)."""
    paths = walker.run_body(handler.body, func, concrete)
    out = []
    for p in paths:
        if p.kind == "raise":
            continue
        calls = [e for e in p.events if e.kind == "call"]
        if any(e.name in ("sys.exit", "os._exit", "builtins.exit", "builtins.quit", "os.abort") for e in calls):
            continue
        out.append(p.kind)
    return out


def module_func(mod: Module) -> FuncInfo:
    """Pseudo function wrapping a module body (for walking scripts such as bin/pygopherd)."""
    cached = getattr(mod, "_pgv_modfunc", None)
    if cached is not None:
        return cached
    node = ast.FunctionDef(
        name="<module>",
        args=ast.arguments(posonlyargs=[], args=[], vararg=None, kwonlyargs=[], kw_defaults=[], kwarg=None, defaults=[]),
        body=mod.tree.body,
        decorator_list=[],
        returns=None,
        lineno=1,
        col_offset=0,
    )
    f = FuncInfo(mod, None, node)
    mod._pgv_modfunc = f
    return f


def catches(handler: ast.ExceptHandler, exc: str) -> bool:
    return any(exc_matches(exc, n) for n in handler_names(handler))


def handler_catches_all_of(try_node: ast.Try, excs) -> bool:
    return all(any(catches(h, e) for h in try_node.handlers) for e in excs)


def concat_pieces(node):
    """A string-building expression (+ chain, f-string, '%s' % ..., "".join([...]), str.format) as a
    list of ('lit', text) / ('expr', normalised text) pieces; None if it is not one."""
    if isinstance(node, ast.Constant) and isinstance(node.value, str):
        return [("lit", node.value)] if node.value else []
    if isinstance(node, ast.BinOp) and isinstance(node.op, ast.Add):
        a, b = concat_pieces(node.left), concat_pieces(node.right)
        if a is None:
            a = [("expr", norm(node.left))]
        if b is None:
            b = [("expr", norm(node.right))]
        return _merge(a + b)
    if isinstance(node, ast.JoinedStr):
        out = []
        for v in node.values:
            if isinstance(v, ast.Constant):
                out.append(("lit", str(v.value)))
            elif isinstance(v, ast.FormattedValue):
                out.append(("expr", norm(v.value)))
        return _merge(out)
    if isinstance(node, ast.BinOp) and isinstance(node.op, ast.Mod) and isinstance(node.left, ast.Constant) and isinstance(node.left.value, str):
        import re as _re

        ops = node.right.elts if isinstance(node.right, ast.Tuple) else [node.right]
        out, i = [], 0
        for seg in _re.split(r"(%s)", node.left.value):
            if seg == "%s":
                if i < len(ops):
                    out.append(("expr", norm(ops[i])))
                i += 1
            elif seg:
                out.append(("lit", seg))
        return _merge(out)
    if isinstance(node, ast.Call) and isinstance(node.func, ast.Attribute) and node.func.attr == "join" \
            and isinstance(node.func.value, ast.Constant) and isinstance(node.func.value.value, str) and node.args \
            and isinstance(node.args[0], (ast.List, ast.Tuple)):
        sep = node.func.value.value
        out = []
        for i, e in enumerate(node.args[0].elts):
            if i and sep:
                out.append(("lit", sep))
            p = concat_pieces(e)
            out.extend(p if p is not None else [("expr", norm(e))])
        return _merge(out)
    if isinstance(node, ast.Call) and isinstance(node.func, ast.Attribute) and node.func.attr == "format" \
            and isinstance(node.func.value, ast.Constant) and isinstance(node.func.value.value, str) and not node.keywords:
        import re as _re

        out, i = [], 0
        for seg in _re.split(r"(\{\d*\})", node.func.value.value):
            if _re.fullmatch(r"\{\d*\}", seg or ""):
                k = int(seg[1:-1]) if seg[1:-1] else i
                if k < len(node.args):
                    out.append(("expr", norm(node.args[k])))
                i += 1
            elif seg:
                out.append(("lit", seg))
        return _merge(out)
    return None


def _merge(pieces):
    out = []
    for k, v in pieces:
        if k == "lit" and out and out[-1][0] == "lit":
            out[-1] = ("lit", out[-1][1] + v)
        elif k == "lit" and not v:
            continue
        else:
            out.append((k, v))
    return out


def helper_calls(prog, resolver, func: FuncInfo, cls, depth: int = 2, skip=()):
    """Helpers a function delegates to: [(callee, call node, caller, {param: argument ast})] for calls on
    self and to module-level functions that resolve to exactly one repository function, transitively."""
    out, seen = [], {func}
    work = [(func, 0)]
    while work:
        f, d = work.pop()
        if d >= depth:
            continue
        for n in ast.walk(f.node):
            if not isinstance(n, ast.Call):
                continue
            try:
                t = resolver.resolve(n, f, cls)
            except Exception:
                continue
            if t is None or t.kind != "repo" or len(t.funcs) != 1 or t.by_name:
                continue
            g = t.funcs[0]
            if g in seen or g.name in skip:
                continue
            is_self = isinstance(n.func, ast.Attribute) and dotted(n.func.value) in ("self", "cls")
            is_modfunc = g.cls is None
            if not (is_self or is_modfunc):
                continue
            seen.add(g)
            params = list(g.params)
            if g.cls is not None and params and is_self and not any(isinstance(dec, ast.Name) and dec.id == "staticmethod" for dec in g.node.decorator_list):
                params = params[1:]
            bind = {}
            for p, a in zip(params, n.args):
                bind[p] = a
            for k in n.keywords:
                if k.arg:
                    bind[k.arg] = k.value
            out.append((g, n, f, bind))
            work.append((g, d + 1))
    return out


class _ParamSub(ast.NodeTransformer):
    def __init__(self, bind):
        self.bind = bind

    def visit_Name(self, node):
        if isinstance(node.ctx, ast.Load) and node.id in self.bind:
            import copy

            return copy.deepcopy(self.bind[node.id])
        return node


def bind_params(expr: ast.AST, bind) -> ast.AST:
    """`expr` of a helper body with the helper's parameters replaced by the caller's arguments."""
    import copy

    from .loader import clear_norm_cache

    if not bind:
        return expr
    return clear_norm_cache(ast.fix_missing_locations(_ParamSub(bind).visit(copy.deepcopy(expr))))


class _ReturnInliner(ast.NodeTransformer):
    """self.helper(args) -> the helper's single return expression with parameters bound (helpers whose body
    is local assignments followed by one return)."""

    def __init__(self, prog, resolver, func, cls, depth=0):
        self.prog, self.resolver, self.func, self.cls, self.depth = prog, resolver, func, cls, depth

    def visit_Call(self, node):
        self.generic_visit(node)
        is_selfcall = isinstance(node.func, ast.Attribute) and dotted(node.func.value) in ("self", "cls")
        is_modfunc = isinstance(node.func, ast.Name) and self.func is not None and (
            node.func.id in self.func.module.functions or node.func.id in self.func.module.imports)
        if not is_modfunc and isinstance(node.func, ast.Attribute) and isinstance(node.func.value, ast.Name) and self.func is not None \
                and node.func.value.id in self.func.module.imports:
            is_modfunc = True  # helper of another module of the package: util.helper(x)
        if self.depth > 2 or not (is_selfcall or is_modfunc):
            return node
        try:
            t = self.resolver.resolve(node, self.func, self.cls)
        except Exception:
            return node
        if t is None or t.kind != "repo" or len(t.funcs) != 1:
            return node
        g = t.funcs[0]
        if g is None or (is_modfunc and g.cls is not None):
            return node
        body = [st for st in g.node.body if not (isinstance(st, ast.Expr) and isinstance(st.value, ast.Constant))]
        if not body or not isinstance(body[-1], ast.Return) or body[-1].value is None:
            return node
        if any(not isinstance(st, (ast.Assign, ast.AnnAssign)) for st in body[:-1]) or \
                sum(1 for x in ast.walk(g.node) if isinstance(x, ast.Return)) != 1:
            return node
        from .facts import expand_ast

        ret = expand_ast(body[-1].value, g)
        params = g.params[1:] if (g.cls is not None and g.params and g.params[0] in ("self", "cls")) else list(g.params)
        bind = dict(zip(params, node.args))
        bind.update({k.arg: k.value for k in node.keywords if k.arg})
        out = bind_params(ret, bind)
        return _ReturnInliner(self.prog, self.resolver, g, self.cls, self.depth + 1).visit(out)


def attr_provenance(path, attr_text: str, func: FuncInfo, prog, resolver, cls, upto=None):
    """Expression that `attr_text` (e.g. 'self.selector') holds along one walker path, written in terms of
    what it held on entry: locals are replaced by their definitions, one-return helpers of the class by their
    return expression, and each assignment's own mention of the attribute by the previous value.
    `upto(event)` may stop the scan (e.g. at the handler lookup)."""
    import copy

    from .facts import expand_ast
    from .loader import clear_norm_cache

    cur = None
    for ev in path.events:
        if upto is not None and upto(ev):
            break
        if ev.kind != "assign" or ev.target != attr_text or not isinstance(ev.node, (ast.Assign, ast.AnnAssign)):
            continue
        fn = ev.frame[0] if ev.frame and ev.frame[0] is not None else func  # helpers inlined by the walker count too
        v = expand_ast(ev.node.value, fn, ev.defs) if ev.defs else copy.deepcopy(ev.node.value)
        v = _ReturnInliner(prog, resolver, fn, cls).visit(copy.deepcopy(v))
        if cur is not None:
            prev = cur

            class _Sub(ast.NodeTransformer):
                def visit_Attribute(self, n):
                    if norm(n) == attr_text and isinstance(n.ctx, ast.Load):
                        return copy.deepcopy(prev)
                    return self.generic_visit(n)

            v = _Sub().visit(v)
        cur = clear_norm_cache(ast.fix_missing_locations(v))
    return cur


def resolve_value(expr: ast.AST, func: FuncInfo, cls, defs, prog, resolver) -> ast.AST:
    """`expr` with locals replaced by their definitions (flow-sensitive `defs`, or single-assignment locals when
    None) and calls to one-return helpers of the class replaced by the expression they return."""
    import copy

    from .facts import expand_ast
    from .loader import clear_norm_cache

    v = expand_ast(expr, func, defs)
    v = _ReturnInliner(prog, resolver, func, cls).visit(copy.deepcopy(v))
    return clear_norm_cache(ast.fix_missing_locations(v))


def assigns_attr(func: FuncInfo, attr_text: str) -> bool:
    return any(isinstance(n, (ast.Assign, ast.AnnAssign, ast.AugAssign)) and any(norm(t) == attr_text for t in (n.targets if isinstance(n, ast.Assign) else [n.target]))
               for n in ast.walk(func.node))


def inline_attr_setters(prog, attr_text: str, depth: int = 3):
    """Inline policy: methods called on self that (directly) assign the attribute are walked as part of their caller."""
    return lambda fn, t, d: d < depth and t.bound_cls is not None and assigns_attr(fn, attr_text)


def is_generator(fnode: ast.AST) -> bool:
    """True when the function's own body (not a nested def/lambda/class) contains yield."""
    work = list(ast.iter_child_nodes(fnode))
    while work:
        n = work.pop()
        if isinstance(n, (ast.FunctionDef, ast.AsyncFunctionDef, ast.Lambda, ast.ClassDef)):
            continue
        if isinstance(n, (ast.Yield, ast.YieldFrom)):
            return True
        work.extend(ast.iter_child_nodes(n))
    return False
