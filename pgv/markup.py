"""Provenance domain for generated markup / header lines / Gopher+ blocks (C13, C04, C15).

A value is a frozenset of kinds (a value carries every kind that may have flowed into it):
  trusted   : CONST CONFIG TABLE SERVER INT MARKUP OBJ
  sanitised : ESCAPED_Q (html.escape with quotes)  ESCAPED (quote=False)  URLQUOTED
  tainted   : TAINTED (request, file names, content, exception text)
              MULTILINE (tainted text that may span lines: sidecar/EA text, HTML title data, mail headers)
              LINE (one element of .splitlines() of MULTILINE text)
Sinks are string-building expressions whose template contains markup: each interpolated
operand must be acceptable for the HTML context it lands in (text or double-quoted
attribute), tracked over the literal text of the template.
"""

from __future__ import annotations

import ast
import re
from typing import Dict, List, Optional

from .loader import dotted, norm
from .prov import Domain, Engine, Frame, TupleVal

TRUSTED = {"CONST", "CONFIG", "TABLE", "SERVER", "INT", "MARKUP", "OBJ"}
OK_TEXT = TRUSTED | {"ESCAPED_Q", "ESCAPED", "URLQUOTED"}
OK_ATTR = TRUSTED | {"ESCAPED_Q", "URLQUOTED"}
OK_HEADER = {"CONST", "CONFIG", "TABLE", "SERVER", "INT", "OBJ"}


def K(*kinds):
    return frozenset(kinds)


TAINTED = K("TAINTED")
OBJ = K("OBJ")

ENTRY_FIELD_SEEDS = {
    "name": TAINTED, "selector": TAINTED, "host": TAINTED, "type": TAINTED, "fspath": TAINTED,
    "port": K("INT"), "num": K("INT"), "size": K("INT"), "mtime": K("INT"), "ctime": K("INT"),
    "gopherpsupport": K("INT"), "populated": K("INT"), "ea": K("MULTILINE"), "config": OBJ,
}
PROTO_ATTR_SEEDS = {
    "request": TAINTED, "selector": TAINTED, "searchrequest": TAINTED, "requestlist": TAINTED,
    "requestparts": TAINTED, "httpheaders": TAINTED, "formvals": TAINTED, "gopherpstring": TAINTED,
    "config": OBJ, "wfile": OBJ, "rfile": OBJ, "server": OBJ, "requesthandler": OBJ, "handler": OBJ,
    "entry": OBJ, "iconmapping": K("CONFIG"), "waptop": K("CONFIG"), "accesskeyidx": K("INT"), "postfieldidx": K("INT"),
    "needsconversion": K("INT"), "handlemethod": K("CONST"), "secure": K("CONST"),
}
LINE_MAKING_DECODERS = {"email.header.decode_header", "email.header.make_header", "email.utils.collapse_rfc2231_value",
                        "email.utils.decode_rfc2231", "html.unescape", "codecs.decode", "binascii.a2b_base64", "binascii.a2b_qp",
                        "binascii.a2b_uu", "binascii.a2b_hex"}
HANDLER_ATTR_SEEDS = {"message": K("MULTILINE"), "mbox": K("MULTILINE"), "selector": TAINTED, "searchrequest": TAINTED, "selectorreal": TAINTED, "selectorargs": TAINTED,
                      "config": OBJ, "vfs": OBJ, "protocol": OBJ, "statresult": OBJ, "entry": OBJ}

KEEP_METHODS = {"strip", "rstrip", "lstrip", "lower", "upper", "encode", "decode", "title", "capitalize", "expandtabs",
                "casefold", "swapcase", "center", "ljust", "rjust", "zfill", "removeprefix", "removesuffix",
                "group", "groups", "copy", "keys", "values", "items", "get", "pop", "split", "rsplit", "partition",
                "rpartition", "format_map", "translate"}


def html_context_after(text: str, ctx: str = "text") -> str:
    """HTML lexical context after scanning literal `text` starting in ctx.
    Contexts: text | tag (inside <...> outside a value) | attr (inside a double-quoted value) |
    sattr (single-quoted value)."""
    for ch in text:
        if ctx == "text":
            if ch == "<":
                ctx = "tag"
        elif ctx == "tag":
            if ch == ">":
                ctx = "text"
            elif ch == '"':
                ctx = "attr"
            elif ch == "'":
                ctx = "sattr"
        elif ctx == "attr":
            if ch == '"':
                ctx = "tag"
        elif ctx == "sattr":
            if ch == "'":
                ctx = "tag"
    return ctx


class Finding:
    __slots__ = ("func", "node", "what", "kinds", "context", "chain", "operand")

    def __init__(self, func, node, what, kinds, context, chain, operand):
        self.func, self.node, self.what, self.kinds, self.context, self.chain, self.operand = func, node, what, kinds, context, chain, operand


class MarkupDomain(Domain):
    def __init__(self, prog, proto_base=None, handler_base=None, entry_cls=None):
        self.prog = prog
        self.proto_base = proto_base
        self.handler_base = handler_base
        self.entry_cls = entry_cls
        self.findings: List[Finding] = []
        self.sinks: Dict = {}  # (func qualname, text) -> dict(ok=bool, contexts=set, kinds=set)
        self.header_funcs = set()  # qualnames whose f-string/concat sinks are header lines
        self.header_classes = set()  # class qualnames whose 'Name: value' / 'HTTP/1.0 ...' templates are header lines wherever they are built
        self.block_funcs = set()  # qualnames building Gopher+ blocks
        self.name_sinks: Dict = {}

    # ------------------------------------------------------------- lattice
    def top(self):
        return TAINTED

    def bottom(self):
        return frozenset()

    def const(self, value):
        if isinstance(value, (str, bytes)):
            text = value if isinstance(value, str) else value.decode("latin-1")
            if "<" in text or ">" in text:
                return K("MARKUP")
            return K("CONST")
        if isinstance(value, bool) or value is None:
            return OBJ
        if isinstance(value, (int, float)):
            return K("INT")
        return OBJ

    def join(self, a, b):
        if a is None:
            return b
        if b is None:
            return a
        return a | b

    def concat(self, parts):
        out = set()
        for p in parts:
            if p:
                out |= set(p)
        out.discard("OBJ")
        if not out:
            return K("CONST")
        if "MARKUP" in out:
            # a string the server assembled around markup: operands were checked at the sink
            return K("MARKUP")
        return frozenset(out)

    def concat_at(self, node, parts, eng, fr):
        v = self.concat(parts)
        # " " + <one line of attribute text>: the line is safely prefixed from here on
        if "LINE" in v and isinstance(node, ast.BinOp) and isinstance(node.op, ast.Add) \
                and isinstance(node.left, ast.Constant) and isinstance(node.left.value, str) \
                and (node.left.value in (" ", "\t") or node.left.value.endswith("\n ")) and parts[1] and "LINE" in parts[1]:
            v = frozenset(("PREFIXED" if k == "LINE" else k) for k in v)
        return v

    def container(self, elems):
        v = None
        for e in elems:
            v = self.join(v, e)
        return v if v is not None else OBJ

    def elem(self, v):
        if v and "MULTILINE" in v:
            return v
        return v

    def compare(self, node, vals):
        return OBJ

    def subscript(self, base, node, index):
        return base

    # --------------------------------------------------------------- seeds
    def seed_self_attr(self, concrete, attr, eng):
        if concrete is None:
            return None
        if self.entry_cls is not None and self.prog.is_subclass(concrete, self.entry_cls):
            return ENTRY_FIELD_SEEDS.get(attr)
        if self.proto_base is not None and self.prog.is_subclass(concrete, self.proto_base):
            return PROTO_ATTR_SEEDS.get(attr)
        if self.handler_base is not None and self.prog.is_subclass(concrete, self.handler_base):
            return HANDLER_ATTR_SEEDS.get(attr)
        if attr == "config":
            return OBJ
        return None

    def param_default(self, func, param, eng):
        if param in ("entry", "direntry", "wfile", "rfile", "config", "handler", "fd", "vfs", "protocol", "server", "statval",
                     "statresult", "requesthandler"):
            return OBJ
        if param in ("default",):
            return OBJ
        if param in ("message", "msgobj", "mail"):
            return K("MULTILINE")  # e-mail message objects: header values may be folded over lines
        if param in ("defaulthost",):
            return K("SERVER")
        if param in ("defaultport", "code"):
            return K("INT")
        if func.cls is not None and self.entry_cls is not None and self.prog.is_subclass(func.cls, self.entry_cls) \
                and func.name.startswith("set") and param == "arg":
            field = func.name[3:]
            if field in ENTRY_FIELD_SEEDS:
                return ENTRY_FIELD_SEEDS[field]
            return eng.callsite_values(func, param)
        return TAINTED

    def attr(self, recv, name, node, eng, fr):
        # direct field reads on entry-like objects
        if name in ENTRY_FIELD_SEEDS:
            return ENTRY_FIELD_SEEDS[name]
        if name in ("mimetype", "encoding", "encodedmimetype", "language", "realencoding"):
            return eng.field(name, fr)
        if name in ("server_name", "server_port"):
            return K("SERVER")
        if name == "titlestr":
            return K("MULTILINE")
        if name in ("strerror", "args", "filename", "errno"):
            return TAINTED
        if name in ("client_address",):
            return K("SERVER")
        return None

    def name(self, ident, eng, fr):
        return None

    # ------------------------------------------------------------ transfers
    def call_ext(self, name, call, recv, args, kws, eng, fr):
        short = name.split(".")[-1] if name else ""
        if name == "<exception>":
            return TAINTED
        if name.startswith("<attr>"):
            return OBJ
        if name.startswith("<ctor>"):
            return OBJ
        if name in ("html.escape", "cgi.escape", "xml.sax.saxutils.escape"):
            q = True if name == "html.escape" else False
            if name == "html.escape":
                if len(call.args) >= 2 and isinstance(call.args[1], ast.Constant):
                    q = bool(call.args[1].value)
                for k in call.keywords:
                    if k.arg == "quote" and isinstance(k.value, ast.Constant):
                        q = bool(k.value.value)
                    elif k.arg == "quote":
                        q = False
            src = args[0] if args else TAINTED
            if src <= TRUSTED:
                return src
            return K("ESCAPED_Q") if q else K("ESCAPED")
        if name in ("urllib.parse.quote", "urllib.parse.quote_plus", "urllib.parse.quote_from_bytes"):
            safe = None
            if len(call.args) >= 2 and isinstance(call.args[1], ast.Constant):
                safe = call.args[1].value
            for k in call.keywords:
                if k.arg == "safe":
                    safe = k.value.value if isinstance(k.value, ast.Constant) else "?"
            if safe is not None and (not isinstance(safe, (str, bytes)) or any(c in str(safe) for c in "\"'<>&?")):
                return args[0] if args else TAINTED
            return K("URLQUOTED")
        if name in ("builtins.int", "builtins.len", "builtins.float", "builtins.ord", "builtins.round", "builtins.abs",
                    "builtins.sum", "builtins.min", "builtins.max") and short in ("int", "len", "float", "ord", "round", "abs"):
            return K("INT")
        if name in ("builtins.str", "builtins.repr", "builtins.bytes", "builtins.list", "builtins.tuple", "builtins.sorted",
                    "builtins.reversed", "builtins.iter", "builtins.next", "builtins.set", "typing.cast", "builtins.dict",
                    "builtins.enumerate") and args:
            return args[-1] if name == "typing.cast" else args[0]
        if name.startswith("time.") or name.startswith("socket.") or name.startswith("os.getpid"):
            return K("SERVER")
        if short in ("get", "getint", "getboolean", "getfloat") and recv is not None and recv == OBJ and call is not None \
                and len(call.args) >= 2 and isinstance(call.args[0], ast.Constant):
            return K("CONFIG") if short == "get" else K("INT")
        if short == "has_option":
            return OBJ
        if name in ("builtins.eval", "ast.literal_eval") and args:
            return args[0]
        if name.startswith("mimetypes."):
            return K("TABLE")
        if name in ("re.sub", "re.subn") and len(args) >= 3:
            # re.sub(pattern, repl, string): repl is interpolated into string
            v = self.concat([args[2], args[1]])
            if self._is_ws_collapse(call):
                v = frozenset(("TAINTED" if k in ("MULTILINE", "LINE") else k) for k in v)
            return v
        if name in ("re.match", "re.search", "re.fullmatch", "re.findall", "re.split") and len(args) >= 2:
            return args[1]
        if name.startswith("?.") and short == "replace" and recv is not None and len(args) >= 2:
            return self.concat([recv, args[1]])
        if name.startswith("?.") and short == "join" and recv is not None and args:
            return self.concat([recv, args[0]])
        if name.startswith("?.") and short == "format" and recv is not None:
            return self.concat([recv] + list(args) + list(kws.values()))
        if name.startswith("?.") and short == "splitlines" and recv is not None:
            return frozenset(("LINE" if k == "MULTILINE" else k) for k in recv)
        if name.startswith("?.") and short in KEEP_METHODS and recv is not None:
            if short == "get" and recv == OBJ:
                return TAINTED  # dict / message .get on an unknown object
            return recv
        if name.startswith("?.") and short in ("readline", "read", "readlines", "recv", "as_bytes", "as_string"):
            return K("MULTILINE") if short in ("read", "readlines", "as_bytes", "as_string") else TAINTED
        if name in ("binascii.unhexlify", "binascii.hexlify"):
            return args[0] if args else K("CONST")
        if name in LINE_MAKING_DECODERS or name.split(".")[0] in ("base64", "quopri", "uu"):
            # decoding can turn line-free text into text with line breaks (=0D=0A, &#10;, base64 of "\n")
            if any(a and (a & {"TAINTED", "LINE", "MULTILINE", "PREFIXED", "ESCAPED", "ESCAPED_Q", "URLQUOTED"}) for a in args):
                return K("MULTILINE")
            return self.container(args) if args else K("CONST")
        if name in ("os.path.basename", "os.path.dirname", "os.path.join", "os.path.normpath", "os.path.split"):
            return self.container(args) if args else TAINTED
        if name in ("builtins.getattr",):
            return OBJ
        if name in ("builtins.isinstance", "builtins.hasattr", "builtins.bool", "builtins.callable"):
            return OBJ
        if name.startswith(("stat.", "struct.", "errno.", "functools.", "subprocess.", "pickle.", "io.", "codecs.")):
            return OBJ
        return TAINTED

    @staticmethod
    def _is_ws_collapse(call) -> bool:
        """re.sub(<pattern matching runs of whitespace>, " ", x)"""
        if len(call.args) < 3:
            return False
        p, r = call.args[0], call.args[1]
        if not (isinstance(p, ast.Constant) and isinstance(p.value, str) and isinstance(r, ast.Constant) and isinstance(r.value, str)):
            return False
        if "\n" in r.value or "\r" in r.value:
            return False
        try:
            rx = re.compile(p.value)
        except re.error:
            return False
        return all(rx.fullmatch(s) for s in ("\n", "\r\n", "\r", "\n\n \t", "\t"))

    def call_repo(self, target, call, recv, args, kws, eng, fr):
        f0 = target.funcs[0]
        if f0.module.name in ("pygopherd.logger",) or (f0.name == "log" and f0.module.name == "pygopherd.GopherExceptions"):
            return OBJ
        if f0.name in ("getHandler", "getProtocol"):
            return OBJ
        if target.by_name and len(target.funcs) > 4:
            return TAINTED
        # entry getters: evaluate through field seeds (faster and context free)
        if f0.cls is not None and self.entry_cls is not None and self.prog.is_subclass(f0.cls, self.entry_cls):
            if f0.name == "getea":
                return K("MULTILINE")
            if f0.name == "geteadict":
                return K("CONFIG")  # keys are block names (R13d checks the writers)
            if f0.name.startswith("get") and f0.name[3:] in ENTRY_FIELD_SEEDS:
                v = ENTRY_FIELD_SEEDS[f0.name[3:]]
                for a in args[:1]:
                    v = v | (a - {"OBJ"}) if a else v
                return v
        return None

    # ---------------------------------------------------------------- sinks
    def _record(self, fr, node, operand_node_text, kinds, context, ok, what):
        key = (fr.func.qualname, norm(node)[:120], operand_node_text)
        rec = self.sinks.setdefault(key, {"func": fr.func, "node": node, "ok": True, "contexts": set(), "kinds": set(),
                                          "operand": operand_node_text, "what": what, "chains": set()})
        rec["contexts"].add(context)
        rec["kinds"] |= set(kinds)
        if not ok:
            rec["ok"] = False
        if len(rec["chains"]) < 3:
            rec["chains"].add(fr.chain)

    def _check_operand(self, fr, node, op_node, kinds, context, mode):
        if kinds is None:
            return
        text = norm(op_node)[:60] if op_node is not None else "?"
        if mode == "header":
            ok = (kinds - {"MARKUP"}) <= OK_HEADER
            self._record(fr, node, text, kinds, "header", ok, "header line")
            return
        if mode == "block":
            bad = "MULTILINE" in kinds
            if "LINE" in kinds and context != "prefixed":
                bad = True
            self._record(fr, node, text, kinds, "block:" + context, not bad, "Gopher+ block")
            return
        allowed = OK_ATTR if context in ("attr", "tag", "sattr") else OK_TEXT
        # multi-line / single-line tainted text is plain tainted text for HTML purposes
        k2 = frozenset("TAINTED" if k in ("MULTILINE", "LINE", "PREFIXED") else k for k in kinds)
        ok = k2 <= allowed
        if context == "sattr" and not (k2 <= TRUSTED | {"URLQUOTED"}):
            ok = False  # html.escape does escape ' (quote=True) but keep single-quoted values strict
            if k2 <= OK_ATTR:
                ok = True
        self._record(fr, node, text, kinds, context, ok, "markup")

    def on_expr(self, node, value, parts, eng, fr):
        if eng.quiet:
            return
        q = fr.func.qualname
        mode = "markup"
        if q in self.header_funcs:
            mode = "header"
        elif q in self.block_funcs:
            mode = "block"
        # pieces: list of (ast node or None, literal text or None, kinds)
        pieces = self._pieces(node, parts, eng, fr)
        if pieces is None:
            return
        if mode == "markup" and fr.func.cls is not None and fr.func.cls.qualname in self.header_classes and pieces \
                and pieces[0][1] is not None and re.match(r"(HTTP/\d\.\d \d|[A-Z][A-Za-z-]*: )", pieces[0][1]):
            mode = "header"  # a status or header line written by a helper of the HTTP family
        if mode == "markup":
            if not any(k and "MARKUP" in k for _, _, k in pieces):
                return
            ctx = "text"
            for pnode, lit, kinds in pieces:
                if lit is not None:
                    ctx = html_context_after(lit, ctx)
                    continue
                if kinds and "MARKUP" in kinds and not (kinds - {"MARKUP", "OBJ", "CONST"}):
                    continue  # server-built markup fragment (already checked where it was built)
                self._check_operand(fr, node, pnode, kinds, ctx, mode)
        elif mode == "header":
            for pnode, lit, kinds in pieces:
                if lit is None:
                    self._check_operand(fr, node, pnode, kinds, "header", mode)
        else:
            prev_lit = None
            for pnode, lit, kinds in pieces:
                if lit is not None:
                    prev_lit = lit
                    continue
                if kinds and ({"LINE", "MULTILINE"} & set(kinds)):
                    prefixed = prev_lit is not None and (prev_lit == " " or prev_lit.endswith("\n ") or prev_lit.endswith("\n\t") or prev_lit == "\t")
                    self._check_operand(fr, node, pnode, kinds, "prefixed" if prefixed else "bare", mode)
                prev_lit = None

    def _pieces(self, node, parts, eng, fr):
        """Template pieces in order: literals with their text, operands with their kinds."""
        out = []
        if isinstance(node, ast.JoinedStr):
            vals = list(parts)
            for v, k in zip(node.values, vals):
                if isinstance(v, ast.Constant):
                    out.append((v, str(v.value), k))
                else:
                    out.append((v.value if isinstance(v, ast.FormattedValue) else v, None, k))
            return out
        if isinstance(node, ast.BinOp) and isinstance(node.op, ast.Mod):
            tmpl = node.left
            if not (isinstance(tmpl, ast.Constant) and isinstance(tmpl.value, (str, bytes))):
                # unknown template: treat every operand as landing in text context
                out.append((tmpl, None, parts[0]))
                ops = node.right.elts if isinstance(node.right, ast.Tuple) else [node.right]
                for o, k in zip(ops, parts[1:]):
                    out.append((o, None, k))
                return out
            text = tmpl.value if isinstance(tmpl.value, str) else tmpl.value.decode("latin-1")
            ops = node.right.elts if isinstance(node.right, ast.Tuple) else [node.right]
            kinds = list(parts[1:])
            segs = re.split(r"(%(?:\([^)]*\))?[-#0 +]*\d*(?:\.\d+)?[sdrifxXeEgGcoau%])", text)
            oi = 0
            mk = parts[0]
            for seg in segs:
                if re.fullmatch(r"%(?:\([^)]*\))?[-#0 +]*\d*(?:\.\d+)?[sdrifxXeEgGcoau%]", seg or ""):
                    if seg.endswith("%"):
                        out.append((None, "%", mk))
                        continue
                    k = kinds[oi] if oi < len(kinds) else TAINTED
                    o = ops[oi] if oi < len(ops) else None
                    if seg[-1] in "dixXeEgGfo":
                        k = K("INT")
                    out.append((o, None, k))
                    oi += 1
                elif seg:
                    out.append((tmpl, seg, mk))
            return out
        if isinstance(node, ast.BinOp) and isinstance(node.op, ast.Add):
            # flatten the + chain
            flat = []

            def rec(n):
                if isinstance(n, ast.BinOp) and isinstance(n.op, ast.Add):
                    rec(n.left)
                    rec(n.right)
                else:
                    flat.append(n)
            rec(node)
            # only the outermost + of a chain reports (inner ones are visited first by the engine)
            for n in flat:
                if isinstance(n, ast.Constant) and isinstance(n.value, (str, bytes)):
                    t = n.value if isinstance(n.value, str) else n.value.decode("latin-1")
                    out.append((n, t, self.const(n.value)))
                else:
                    eng.quiet += 1
                    try:
                        k = eng.expr(n, fr)
                    finally:
                        eng.quiet -= 1
                    out.append((n, None, k))
            return out
        if isinstance(node, ast.AugAssign):
            old, new = parts
            tgt = node.target
            out.append((tgt, None if not (old and old <= {"CONST"}) else "", old))
            if isinstance(node.value, ast.Constant) and isinstance(node.value.value, (str, bytes)):
                t = node.value.value if isinstance(node.value.value, str) else node.value.value.decode("latin-1")
                out.append((node.value, t, new))
            else:
                out.append((node.value, None, new))
            return out
        return None

    def on_call(self, target, call, recv, args, kws, eng, fr):
        if eng.quiet:
            return
        # wfile.write(x) inside markup-writing functions
        if isinstance(call.func, ast.Attribute) and call.func.attr == "write" and args and \
                (dotted(call.func.value) or "").split(".")[-1] in ("wfile",):
            q = fr.func.qualname
            if q in self.header_funcs:
                return
            if getattr(fr.func, "_pgv_markup_writer", None) is None:
                fr.func._pgv_markup_writer = any(
                    isinstance(n, ast.Constant) and isinstance(n.value, (str, bytes)) and
                    ("<" in (n.value if isinstance(n.value, str) else n.value.decode("latin-1")))
                    for n in ast.walk(fr.func.node))
            if fr.func._pgv_markup_writer:
                kinds = args[0]
                if kinds and not (kinds <= {"MARKUP", "CONST", "OBJ"}):
                    self._check_operand(fr, call, call.args[0], kinds, "text", "markup")
                else:
                    self._record(fr, call, norm(call.args[0])[:60], kinds or K("CONST"), "text", True, "markup")
        # re.sub(pattern, repl, template) with a markup/config template: repl lands in the template
        if target.kind == "ext" and target.ext in ("re.sub", "re.subn") and len(args) >= 3:
            if args[2] and (args[2] & {"MARKUP", "CONFIG"}):
                self._check_operand(fr, call, call.args[1], args[1], "attr", "markup")
        if isinstance(call.func, ast.Attribute) and call.func.attr == "replace" and recv is not None and len(args) >= 2 \
                and (recv & {"MARKUP", "CONFIG"}) and fr.func.qualname not in self.header_funcs:
            if getattr(fr.func, "_pgv_markup_builder", None) is None:
                fr.func._pgv_markup_builder = any(
                    isinstance(n, ast.Constant) and isinstance(n.value, (str, bytes)) and
                    ("<" in (n.value if isinstance(n.value, str) else n.value.decode("latin-1")))
                    for n in ast.walk(fr.func.node))
            if fr.func._pgv_markup_builder:
                self._check_operand(fr, call, call.args[1], args[1], "attr", "markup")
        # names: setname(x) must not receive text that can span lines
        if isinstance(call.func, ast.Attribute) and call.func.attr == "setname" and args:
            key = (fr.func.qualname, norm(call))
            rec = self.name_sinks.setdefault(key, {"func": fr.func, "node": call, "kinds": set()})
            rec["kinds"] |= set(args[0] or ())
