"""pgv -- static verification of pygopherd properties (pure stdlib, ast based).

Nothing in /repo is imported or executed.  See /verif/DESIGN.md.
"""

import os

REPO = os.environ.get("PGV_REPO", "/repo")
VERIF = os.path.dirname(os.path.dirname(os.path.abspath(__file__)))
