"""Analysis context: program, resolver, shipped configuration."""

from __future__ import annotations

import ast
import configparser
import os
from typing import Dict, List, Optional

from .loader import AnalysisError, ClassInfo, Program
from .report import Report
from .resolve import Resolver


class Config:
    """The shipped configuration files, parsed (never evaluated)."""

    FILES = ("conf/pygopherd.conf", "conf/local.conf")

    def __init__(self, root: str, overrides: Dict[str, str] = None):
        self.root = root
        self.parsers: Dict[str, configparser.ConfigParser] = {}
        for rel in self.FILES:
            full = os.path.join(root, rel)
            cp = configparser.ConfigParser()
            if overrides and rel in overrides:
                cp.read_string(overrides[rel])
            elif os.path.isfile(full):
                with open(full, "r", encoding="utf-8", errors="surrogateescape") as fp:
                    cp.read_string(fp.read())
            else:
                continue
            self.parsers[rel] = cp

    def get(self, section: str, option: str) -> Dict[str, str]:
        """file -> raw value for every shipped file that sets the option."""
        out = {}
        for rel, cp in self.parsers.items():
            if cp.has_option(section, option):
                out[rel] = cp.get(section, option, raw=True)
        return out

    def class_list(self, prog: Program, section: str, option: str, modpkg: str) -> Dict[str, List[ClassInfo]]:
        """Resolve a `[mod.Class, ...]` option to classes; an unresolved name is a
        reported problem (returned under key '!errors')."""
        out: Dict[str, List] = {}
        errors = []
        for rel, raw in self.get(section, option).items():
            try:
                tree = ast.parse(raw.strip(), mode="eval").body
            except SyntaxError as e:
                errors.append(f"{rel}: [{section}] {option} does not parse: {e}")
                continue
            if not isinstance(tree, (ast.List, ast.Tuple)):
                errors.append(f"{rel}: [{section}] {option} is not a list literal")
                continue
            classes = []
            for elt in tree.elts:
                text = ast.unparse(elt)
                cls = prog.find_class(f"{modpkg}.{text}")
                if cls is None:
                    errors.append(f"{rel}: [{section}] {option}: {text} does not name a class")
                else:
                    classes.append(cls)
            out[rel] = classes
        if errors:
            out["!errors"] = errors
        return out


class Ctx:
    def __init__(self, root: str = None, overrides: Dict[str, str] = None, tier: str = "quick", seed: int = 0):
        self.prog = Program(root, overrides)
        self.root = self.prog.root
        self.resolver = Resolver(self.prog)
        self.config = Config(self.root, overrides)
        self.tier = tier
        self.seed = seed
        self._cache: Dict[str, object] = {}
        from . import strlang

        strlang.PROG = self.prog

    # convenience -----------------------------------------------------------
    def cls(self, qual: str) -> Optional[ClassInfo]:
        return self.prog.find_class(qual)

    def func(self, qual: str):
        return self.prog.find_func(qual)

    def handler_classes(self) -> List[ClassInfo]:
        base = self.cls("handlers.base.BaseHandler")
        return self.prog.subclasses(base) if base else []

    def protocol_classes(self) -> List[ClassInfo]:
        """Protocol classes a connection can be served by.  A class that only collects code shared by several protocols (it
        has subclasses, defines neither canhandlerequest() nor handle() itself and is named in no shipped protocol list) is
        not one of them: its methods are analysed through the protocols that inherit them."""
        base = self.cls("protocols.base.BaseGopherProtocol")
        if not base:
            return []
        cached = self._cache.get("protocol_classes")
        if cached is not None:
            return cached
        try:
            listed = {c for lst in self.protocol_lists().values() for c in lst}
        except Exception:
            listed = set()
        out = []
        for C in self.prog.subclasses(base):
            if C is not base and C not in listed and "canhandlerequest" not in C.methods and "handle" not in C.methods \
                    and any(S is not C for S in self.prog.subclasses(C)):
                continue
            out.append(C)
        self._cache["protocol_classes"] = out
        return out

    def owns(self, P: ClassInfo, m) -> bool:
        """Is method m `P's own` for per-class rules: defined in P, or inherited from a class that is not itself a protocol
        a connection can be served by (a mixin or a collecting base class)."""
        if m is None:
            return False
        if m.cls is P:
            return True
        return m.cls is not None and m.cls not in self.protocol_classes() and m.cls in self.prog.mro(P)

    def handler_lists(self) -> Dict[str, List[ClassInfo]]:
        return self.config.class_list(self.prog, "handlers.HandlerMultiplexer", "handlers", "handlers")

    def protocol_lists(self) -> Dict[str, List[ClassInfo]]:
        return self.config.class_list(self.prog, "protocols.ProtocolMultiplexer", "protocols", "protocols")

    def where(self, func_or_mod, node=None) -> str:
        rel = getattr(func_or_mod, "relpath", None) or func_or_mod.module.relpath
        line = getattr(node, "lineno", None)
        if line is None and hasattr(func_or_mod, "node"):
            line = func_or_mod.node.lineno
        return f"{rel}:{line}" if line else rel
