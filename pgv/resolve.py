"""Call-target resolution (class-hierarchy analysis + a small receiver-type table).

The receiver tables below were inferred from constructor calls / annotations in the
repository and confirmed by reading; each entry has one line of reason.  A receiver
that is not in a table falls back to *by-name* resolution (every repository method of
that name), which is the conservative choice for effect summaries.
"""

from __future__ import annotations

import ast
from typing import List, Optional

from .loader import ClassInfo, FuncInfo, Program, dotted

# attribute of `self`  ->  base classes whose (sub)classes the attribute may hold
SELF_FIELD_TYPES = {
    "vfs": ["handlers.base.VFS_Real"],  # BaseHandler.__init__: VFS_Real(config) or the vfs passed in (VFSZip)
    "chain": ["handlers.base.VFS_Real"],  # VFS_Real.__init__(chain): the VFS a VFSZip reads its archive through
    "protocol": ["protocols.base.BaseGopherProtocol"],  # BaseHandler.__init__(protocol)
    "handler": ["handlers.base.BaseHandler"],  # protocol.gethandler()/ZIPHandler._makehandler: result of getHandler
    "entry": ["gopherentry.GopherEntry"],  # handler.getentry() results
    "context": ["simpletal.simpleTALES.Context"],  # TemplateInterpreter.initialise(context,...)
    "server": ["server.BaseServer"],  # socketserver passes the server to the request handler / protocol
    "requesthandler": ["server.GopherRequestHandler"],  # getProtocol(..., requesthandler, ...)
    "pygobject": ["handlers.base.BaseHandler"],  # PYGHandler: instance of the PYGMain class of the loaded module
}

# attributes of `self` that hold objects from outside the repository (never resolved by name)
EXTERNAL_SELF_FIELDS = {
    "zip",  # zipfile.ZipFile (VFSZip.__init__)
    "zipfd",  # file object of the archive
    "mbox",  # mailbox.mbox / Maildir (FolderHandler)
    "rfile", "wfile",  # socket files
    "config",  # configparser.ConfigParser
    "request", "socket",  # sockets
    "httpheaders", "dircache", "entrycache", "invalid_paths", "formvals", "iconmapping",  # dict / set
    "file",  # TemplateInterpreter output file
    "module", "pygclass",  # PYGHandler: loaded module / class object
    "message",  # email message
}

# local / parameter names -> base classes (same convention)
LOCAL_TYPES = {
    "vfs": ["handlers.base.VFS_Real"],
    "handler": ["handlers.base.BaseHandler"],
    "htry": ["handlers.base.BaseHandler"],
    "probe": ["handlers.base.BaseHandler"],
    "entry": ["gopherentry.GopherEntry"],
    "direntry": ["gopherentry.GopherEntry"],
    "fileentry": ["gopherentry.GopherEntry"],
    "absentry": ["gopherentry.GopherEntry"],
    "linkentry": ["gopherentry.GopherEntry"],
    "old": ["gopherentry.GopherEntry"],
    "new": ["gopherentry.GopherEntry"],
    "ptry": ["protocols.base.BaseGopherProtocol"],
    "protohandler": ["protocols.base.BaseGopherProtocol"],
    "protocol": ["protocols.base.BaseGopherProtocol"],
    "server": ["server.BaseServer"],
}

# receivers that are never repository objects (files, sockets, parsers, containers…)
EXTERNAL_RECEIVERS = {
    "wfile", "rfile", "fd", "fp", "fakefile", "template_file", "db", "sock", "request",
    "config", "parser", "mailbox", "message", "match", "icon", "subtype", "line",
    "retstr", "selector", "url", "context_", "loader", "spec", "resp", "data", "zi",
    "info", "pattern", "file", "newenv", "args", "splitline", "files", "dirfiles",
    "outdoc", "title", "subject", "description", "description_bytes", "text",
    "abstractstring", "abstractline", "pathname", "filename", "filename_", "fspath",
    "basename", "item", "directory", "dirlevel", "retobj", "parts", "path", "msg",
    "message_bytes", "startline", "url_parts", "searchrequest", "mimetype",
}

COMMON_NONREPO_METHODS = {
    # str / bytes / list / dict / set / file / re methods: never resolved by name
    "append", "extend", "remove", "sort", "reverse", "items", "keys", "values", "get",
    "find", "index", "split", "strip", "rstrip", "lstrip", "startswith", "endswith",
    "join", "encode", "decode", "lower", "upper", "replace", "format", "splitlines",
    "read", "readline", "readlines", "flush", "close", "seek", "add", "copy", "count",
    "rfind", "isdigit", "group", "groups", "search", "match", "sub", "pop", "update",
    "clear", "insert", "has_key", "setdefault", "end", "start", "span", "feed", "tell",
    "getvalue", "as_bytes", "sendall", "recv", "makefile", "settimeout", "setsockopt",
    "getsockname", "has_option", "getboolean", "getint", "getfloat", "set", "sections",
    "options", "load_cert_chain", "wrap_socket", "exec_module", "infolist", "getinfo",
    "isspace", "title", "capitalize", "partition", "rpartition", "zfill", "ljust",
}


class Target:
    """Result of resolving one call site."""

    __slots__ = ("kind", "funcs", "ext", "cls", "text", "by_name", "bound_cls")

    def __init__(self, kind, text, funcs=None, ext=None, cls=None, by_name=False, bound_cls=None):
        self.kind = kind  # 'repo' | 'ext' | 'ctor' | 'unknown'
        self.text = text  # dotted text of the callee expression
        self.funcs: List[FuncInfo] = funcs or []
        self.ext: Optional[str] = ext
        self.cls: Optional[ClassInfo] = cls
        self.by_name = by_name
        self.bound_cls = bound_cls  # concrete class when the call is on self

    @property
    def name(self) -> str:
        """Canonical name: external dotted name, or repo qualname(s)."""
        if self.kind == "ext":
            return self.ext
        if self.kind == "ctor":
            return self.cls.qualname if self.cls else self.ext
        if self.funcs:
            return self.funcs[0].qualname
        return self.text or "?"

    def __repr__(self):
        return f"<Target {self.kind} {self.name}>"


class Resolver:
    def __init__(self, prog: Program):
        self.prog = prog
        self._by_name = {}
        for f in prog.all_functions():
            if f.cls is not None:
                self._by_name.setdefault(f.name, []).append(f)

    def _classes(self, quals) -> List[ClassInfo]:
        out = []
        for q in quals:
            c = self.prog.find_class(q)
            if c is not None:
                out.extend(self.prog.subclasses(c))
        return out

    def methods_in(self, classes: List[ClassInfo], name: str) -> List[FuncInfo]:
        seen, out = set(), []
        for c in classes:
            f = self.prog.resolve_method(c, name)
            if f is not None and id(f) not in seen:
                seen.add(id(f))
                out.append(f)
        return out

    def resolve(self, call: ast.Call, func: Optional[FuncInfo], concrete: Optional[ClassInfo] = None,
                local_types=None) -> Target:
        prog = self.prog
        fnode = call.func
        text = dotted(fnode)
        mod = func.module if func is not None else None
        cls = concrete or (func.cls if func is not None else None)

        # --- plain names / dotted module paths
        if text and mod is not None and not text.startswith(("self.", "super().")) and text not in ("self",):
            head = text.split(".")[0]
            is_local = False
            if func is not None and head in _local_names(func) and head not in mod.imports \
                    and head not in mod.classes and head not in mod.functions:
                is_local = True
            if not is_local:
                res = prog.resolve_dotted(mod, text)
                if res is not None:
                    if res[0] == "func":
                        f = res[1]
                        return Target("repo", text, funcs=[f])
                    if res[0] == "class":
                        c = res[1]
                        init = prog.resolve_method(c, "__init__")
                        return Target("ctor", text, funcs=[init] if init else [], cls=c)
                    if res[0] == "ext":
                        return Target("ext", text, ext=res[1])
                    if res[0] in ("global", "classattr", "module"):
                        return Target("unknown", text)

        if isinstance(fnode, ast.Attribute):
            meth = fnode.attr
            recv = fnode.value
            rtext = dotted(recv)
            # self.m(...)
            if rtext == "self" and cls is not None:
                f = prog.resolve_method(cls, meth)
                if f is not None:
                    return Target("repo", text, funcs=[f], bound_cls=cls)
                return Target("unknown", text)
            # super().m(...)
            if rtext == "super()" and cls is not None and func is not None and func.cls is not None:
                f = prog.resolve_method(cls, meth, after=func.cls)
                if f is not None:
                    return Target("repo", text, funcs=[f], bound_cls=cls)
                exts = prog.external_bases(cls)
                return Target("ext", text, ext=(exts[0] + "." + meth) if exts else "object." + meth)
            # self.field.m(...)
            if rtext and rtext.startswith("self.") and rtext.count(".") == 1:
                field = rtext.split(".")[1]
                if field in EXTERNAL_SELF_FIELDS:
                    return Target("ext", text, ext="?." + meth)
                if field in SELF_FIELD_TYPES:
                    fs = self.methods_in(self._classes(SELF_FIELD_TYPES[field]), meth)
                    if fs:
                        return Target("repo", text, funcs=fs)
                    return Target("ext", text, ext="?." + meth)
            # local.m(...)
            if isinstance(recv, ast.Name):
                quals = None
                if local_types and recv.id in local_types:
                    quals = local_types[recv.id]
                elif recv.id in LOCAL_TYPES:
                    quals = LOCAL_TYPES[recv.id]
                if quals:
                    fs = self.methods_in(self._classes(quals), meth)
                    if fs:
                        return Target("repo", text, funcs=fs)
                    return Target("ext", text, ext="?." + meth)
                if recv.id in EXTERNAL_RECEIVERS:
                    return Target("ext", text, ext="?." + meth)
                if func is not None and _local_is_external(prog, func, recv.id):
                    return Target("ext", text, ext="?." + meth)
                # x = SomeRepoClass(...) earlier in the same function
                if func is not None:
                    ctor_cls = _local_ctor_class(prog, func, recv.id)
                    if ctor_cls is not None:
                        f = prog.resolve_method(ctor_cls, meth)
                        if f is not None:
                            return Target("repo", text, funcs=[f])
                        return Target("ext", text, ext="?." + meth)
            # chained call receivers like self.getentry().m() / handler.getentry().m()
            if isinstance(recv, ast.Call):
                inner = dotted(recv.func) or ""
                last = inner.split(".")[-1]
                if last in ("getentry", "GopherEntry", "getinfoentry"):
                    fs = self.methods_in(self._classes(["gopherentry.GopherEntry"]), meth)
                    if fs:
                        return Target("repo", text, funcs=fs)
                if last in ("gethandler", "getHandler"):
                    fs = self.methods_in(self._classes(["handlers.base.BaseHandler"]), meth)
                    if fs:
                        return Target("repo", text, funcs=fs)
            # by-name fallback
            if meth not in COMMON_NONREPO_METHODS and meth in self._by_name:
                return Target("repo", text or ("?." + meth), funcs=list(self._by_name[meth]), by_name=True)
            return Target("ext", text or ("?." + meth), ext="?." + meth)
        return Target("unknown", text or "?")


_EXT_ANNOT_HEADS = {"str", "bytes", "int", "float", "bool", "bytearray", "list", "dict", "set", "tuple", "typing", "io", "socket", "ssl",
                    "configparser", "re", "zipfile", "mailbox", "email", "os", "collections"}
_EXT_VALUE_FUNCS = {"open", "str", "bytes", "int", "float", "len", "sorted", "list", "dict", "set", "tuple", "repr", "iter", "next",
                    "enumerate", "zip", "range", "min", "max", "sum", "any", "all", "bool", "bytearray", "frozenset", "reversed", "map", "filter"}


def _local_is_external(prog: Program, func: FuncInfo, name: str) -> bool:
    """Is every binding of the local `name` in func visibly a non-repository object: a parameter annotated with a
    builtin / typing / io type, the result of open() (builtin or a VFS's), of a standard-library call, of a str/bytes/
    file method, or a literal?"""
    cache = getattr(func, "_ext_locals", None)
    if cache is None:
        cache = {}
        func._ext_locals = cache
    if name in cache:
        return cache[name]
    cache[name] = False  # recursion guard
    mod = func.module

    def ext_annotation(a) -> bool:
        if a is None:
            return False
        if isinstance(a, ast.Constant) and isinstance(a.value, str):
            try:
                a = ast.parse(a.value, mode="eval").body
            except SyntaxError:
                return False
        base = a.value if isinstance(a, ast.Subscript) else a
        d = dotted(base) or ""
        head = d.split(".")[0]
        if head in _EXT_ANNOT_HEADS:
            if head == "typing" and d in ("typing.Optional", "typing.Union", "typing.Type") and isinstance(a, ast.Subscript):
                inner = a.slice.elts if isinstance(a.slice, ast.Tuple) else [a.slice]
                return all(ext_annotation(i) or (isinstance(i, ast.Constant) and i.value is None) for i in inner)
            return d != "typing.Any"
        res = prog.resolve_dotted(mod, d) if d else None
        return bool(res) and res[0] == "ext"

    def ext_value(v, depth=0) -> bool:
        if depth > 4:
            return False
        if isinstance(v, (ast.Constant, ast.JoinedStr, ast.List, ast.Dict, ast.Set, ast.Tuple, ast.ListComp, ast.DictComp, ast.SetComp,
                          ast.GeneratorExp, ast.Compare, ast.BoolOp)) and not isinstance(v, ast.BoolOp):
            return True
        if isinstance(v, ast.BinOp):
            return ext_value(v.left, depth + 1) or ext_value(v.right, depth + 1)
        if isinstance(v, ast.Subscript):
            return ext_value(v.value, depth + 1)
        if isinstance(v, ast.Name):
            return v.id != name and v.id in _local_names(func) and (v.id in EXTERNAL_RECEIVERS or _local_is_external(prog, func, v.id))
        if isinstance(v, ast.Call):
            f = v.func
            if isinstance(f, ast.Name):
                if f.id in _EXT_VALUE_FUNCS and f.id not in mod.functions and f.id not in mod.classes:
                    return True
                res = prog.resolve_dotted(mod, f.id)
                return bool(res) and res[0] == "ext"
            if isinstance(f, ast.Attribute):
                if f.attr in ("open",) or f.attr in COMMON_NONREPO_METHODS:
                    return True
                d = dotted(f) or ""
                res = prog.resolve_dotted(mod, d) if d and not d.startswith("self") else None
                return bool(res) and res[0] == "ext"
        return False

    verdicts = []
    args = func.node.args
    for a in args.posonlyargs + args.args + args.kwonlyargs:
        if a.arg == name:
            verdicts.append(ext_annotation(a.annotation))
    for n in ast.walk(func.node):
        if isinstance(n, ast.Assign):
            for t in n.targets:
                if isinstance(t, ast.Name) and t.id == name:
                    verdicts.append(ext_value(n.value))
                elif isinstance(t, (ast.Tuple, ast.List)) and any(isinstance(e, ast.Name) and e.id == name for e in ast.walk(t)):
                    verdicts.append(False)
        elif isinstance(n, ast.AnnAssign) and isinstance(n.target, ast.Name) and n.target.id == name:
            verdicts.append(ext_annotation(n.annotation) or (n.value is not None and ext_value(n.value)))
        elif isinstance(n, (ast.With, ast.AsyncWith)):
            for it in n.items:
                if isinstance(it.optional_vars, ast.Name) and it.optional_vars.id == name:
                    verdicts.append(ext_value(it.context_expr))
        elif isinstance(n, (ast.For, ast.AsyncFor, ast.comprehension)):
            if any(isinstance(e, ast.Name) and e.id == name for e in ast.walk(n.target)):
                verdicts.append(isinstance(n.target, ast.Name) and ext_value(n.iter))
        elif isinstance(n, ast.NamedExpr) and n.target.id == name:
            verdicts.append(ext_value(n.value))
        elif isinstance(n, ast.ExceptHandler) and n.name == name:
            verdicts.append(True)
    res = bool(verdicts) and all(verdicts)
    cache[name] = res
    return res


def _local_ctor_class(prog: Program, func: FuncInfo, name: str) -> Optional[ClassInfo]:
    cache = getattr(func, "_ctor_types", None)
    if cache is None:
        cache = {}
        for n in ast.walk(func.node):
            if isinstance(n, ast.Assign) and len(n.targets) == 1 and isinstance(n.targets[0], ast.Name) \
                    and isinstance(n.value, ast.Call):
                d = dotted(n.value.func)
                res = prog.resolve_dotted(func.module, d) if d else None
                key = n.targets[0].id
                if res and res[0] == "class":
                    cache[key] = res[1] if key not in cache or cache[key] is res[1] else False
                elif key in cache:
                    cache[key] = False
        func._ctor_types = cache
    c = cache.get(name)
    return c if c else None


def _local_names(func: FuncInfo):
    cached = getattr(func, "_locals", None)
    if cached is not None:
        return cached
    names = set(func.params) | set(func.kwonly)
    if func.node.args.vararg:
        names.add(func.node.args.vararg.arg)
    if func.node.args.kwarg:
        names.add(func.node.args.kwarg.arg)
    globs = set()
    for n in ast.walk(func.node):
        if isinstance(n, ast.Global):
            globs.update(n.names)
    for n in ast.walk(func.node):
        if isinstance(n, ast.Name) and isinstance(n.ctx, ast.Store) and n.id not in globs:
            names.add(n.id)
    func._locals = names
    return names
