"""CLI:  python -m pgv check <Cnn> [--tier quick|thorough]
         python -m pgv replay <path>
         python -m pgv all [--tier ...]
Exit: 0 property held on everything analysed / 1 VIOLATION / 2 ANALYSIS-ERROR.
"""

from __future__ import annotations

import argparse
import importlib
import json
import os
import sys
import traceback

from . import REPO
from .ctx import Ctx
from .loader import AnalysisError
from .report import Report

ALL = ["C01", "C02", "C03", "C04", "C05", "C06", "C07", "C08", "C09", "C10", "C11", "C12", "C13",
       "C14", "C15", "C16", "C17", "C18", "C19", "C20"]


def run_check(pid: str, tier: str, seed: int, root: str = None, overrides=None, write=True) -> int:
    try:
        mod = importlib.import_module(f"pgv.rules.{pid.lower()}")
    except ImportError:
        print(f"ANALYSIS-ERROR property={pid}: no rule module")
        return 2
    try:
        rep = Report(pid, tier, seed)
        ctx = Ctx(root=root, overrides=overrides, tier=tier, seed=seed)
        mod.check(ctx, rep)
        if tier == "thorough" and hasattr(mod, "thorough"):
            mod.thorough(ctx, rep)
        rc = rep.finish(write=write)
        if rc == 0 and tier == "thorough":
            from . import variants

            rc2 = variants.selfcheck(pid, ctx, rep, seed)
            if rc2:
                return rc2
        return rc
    except AnalysisError as e:
        print(f"ANALYSIS-ERROR property={pid}: {e}")
        return 2
    except Exception:
        print(f"ANALYSIS-ERROR property={pid}: internal error")
        traceback.print_exc()
        return 2


def main(argv=None) -> int:
    ap = argparse.ArgumentParser(prog="pgv")
    sub = ap.add_subparsers(dest="cmd", required=True)
    c = sub.add_parser("check")
    c.add_argument("property")
    c.add_argument("--tier", default=os.environ.get("VERIF_TIER", "quick"), choices=["quick", "thorough"])
    c.add_argument("--root", default=None)
    c.add_argument("--no-write", action="store_true")
    a = sub.add_parser("all")
    a.add_argument("--tier", default=os.environ.get("VERIF_TIER", "quick"), choices=["quick", "thorough"])
    a.add_argument("--root", default=None)
    a.add_argument("--no-write", action="store_true")
    st = sub.add_parser("selftest")
    st.add_argument("properties", nargs="*")
    r = sub.add_parser("replay")
    r.add_argument("path")
    args = ap.parse_args(argv)
    try:
        seed = int(os.environ.get("VERIF_SEED", "0"))
    except ValueError:
        seed = 0
    if args.cmd == "selftest":
        from . import variants

        return variants.main_selftest([p.upper() for p in args.properties] or None)
    if args.cmd == "check":
        return run_check(args.property.upper(), args.tier, seed, root=args.root, write=not args.no_write)
    if args.cmd == "all":
        worst = 0
        for pid in ALL:
            rc = run_check(pid, args.tier, seed, root=args.root, write=not args.no_write)
            worst = max(worst, rc)
        return worst
    if args.cmd == "replay":
        with open(args.path) as fp:
            rec = json.load(fp)
        print(json.dumps(rec, indent=1))
        pid = rec["property_id"]
        # re-run the property's check; the recorded violation is still present iff the
        # same key is reported again
        from .ctx import Ctx as _C

        mod = importlib.import_module(f"pgv.rules.{pid.lower()}")
        ctx = _C(tier="quick")
        rep = Report(pid, "quick", seed)
        mod.check(ctx, rep)
        rep.check_floors()
        still = [o for o in rep.violations if o.key == rec.get("key")]
        if still:
            o = still[0]
            print(f"VIOLATION property={pid} replay={args.path}")
            print(f"  rule={o.rule} instance={o.instance} at {o.where}\n  {o.detail}")
            return 1
        print("not reproduced on the current tree")
        return 0
    return 2


if __name__ == "__main__":
    sys.exit(main())
