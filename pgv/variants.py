"""Two-way self-test of the rules (DESIGN.md 2.7).

Every variant is an in-memory edit of the *current* source text of /repo (never
written into /repo, never executed): a seeded *fault* must make the named rule report
a violation, a benign *twin* must leave the property's check silent.  A variant whose
anchor text is no longer present is skipped (counted), not an error.

The verdict of a registered check never depends on this self-test: mismatches are
printed as SELFTEST-MISMATCH lines and recorded in the evidence; `python -m pgv
selftest` is the command that fails (exit 2) on a mismatch.
"""

from __future__ import annotations

import ast
import importlib
import io
import os
import sys
import time
from contextlib import redirect_stdout
from typing import Dict, List, Optional, Tuple

from . import REPO
from .report import Report


class Variant:
    def __init__(self, vid: str, prop: str, kind: str, edits: List[Tuple[str, str, str]], rule: str = None, note: str = ""):
        self.id = vid
        self.prop = prop
        self.kind = kind  # 'fault' | 'twin'
        self.edits = edits  # (relpath, old, new)
        self.rule = rule  # rule id expected to fire (prefix match) for faults
        self.note = note


REGISTRY: List[Variant] = []


def fault(vid, prop, rule, *edits, note=""):
    REGISTRY.append(Variant(vid, prop, "fault", _norm_edits(edits), rule, note))


def twin(vid, prop, *edits, note=""):
    REGISTRY.append(Variant(vid, prop, "twin", _norm_edits(edits), None, note))


def _norm_edits(edits):
    out = []
    flat = list(edits)
    if flat and isinstance(flat[0], str):
        flat = [tuple(flat)]
    for e in flat:
        out.append(tuple(e))
    return out


def build_overrides(v: Variant, root: str) -> Optional[Dict[str, str]]:
    ov: Dict[str, str] = {}
    for rel, old, new in v.edits:
        src = ov.get(rel)
        if src is None:
            path = os.path.join(root, rel)
            if not os.path.isfile(path):
                return None
            with open(path, "r", encoding="utf-8", errors="surrogateescape") as fp:
                src = fp.read()
        if old not in src:
            return None
        src = src.replace(old, new, 1)
        ov[rel] = src
    for rel, src in ov.items():
        if rel.endswith(".py") or rel == "bin/pygopherd":
            try:
                import warnings

                with warnings.catch_warnings():
                    warnings.simplefilter("ignore")
                    ast.parse(src)
            except SyntaxError:
                return None
    return ov


def run_variant(args):
    vid, root = args
    _load_all()
    v = next(x for x in REGISTRY if x.id == vid)
    ov = build_overrides(v, root)
    if ov is None:
        return (vid, "skipped", [], 0.0)
    from .ctx import Ctx

    t0 = time.time()
    try:
        mod = importlib.import_module(f"pgv.rules.{v.prop.lower()}")
        ctx = Ctx(root=root, overrides=ov, tier="quick")
        rep = Report(v.prop, "quick", 0)
        buf = io.StringIO()
        with redirect_stdout(buf):
            mod.check(ctx, rep)
            rep.check_floors()
        viols = [(o.rule, o.instance, o.detail[:160]) for o in rep.violations]
    except Exception as e:  # analysis crash on a variant
        return (vid, "error", [("crash", type(e).__name__, str(e)[:200])], time.time() - t0)
    return (vid, "ran", viols, time.time() - t0)


_LOADED = False


def _load_all():
    global _LOADED
    if _LOADED:
        return
    _LOADED = True
    from . import variant_defs  # noqa: F401  (registers everything)


def evaluate(v: Variant, status: str, viols) -> Tuple[bool, str]:
    if status == "skipped":
        return True, "skipped (anchor text not present)"
    if status == "error":
        return False, f"analysis crashed: {viols}"
    if v.kind == "twin":
        if viols:
            return False, f"benign twin reported: {viols[:2]}"
        return True, "silent"
    hit = [x for x in viols if v.rule is None or x[0].startswith(v.rule)]
    if not hit:
        return False, f"seeded fault not reported by {v.rule} (got {viols[:2]})"
    return True, f"fired: {hit[0][0]} {hit[0][1][:60]}"


def run_all(props: List[str] = None, root: str = None, jobs: int = None):
    _load_all()
    root = root or REPO
    todo = [v for v in REGISTRY if props is None or v.prop in props]
    jobs = jobs or min(16, os.cpu_count() or 4)
    results = []
    if jobs > 1 and len(todo) > 2:
        import multiprocessing as mp

        with mp.get_context("fork").Pool(jobs) as pool:
            results = pool.map(run_variant, [(v.id, root) for v in todo], chunksize=1)
    else:
        results = [run_variant((v.id, root)) for v in todo]
    out = []
    byid = {v.id: v for v in todo}
    for vid, status, viols, wall in results:
        v = byid[vid]
        ok, what = evaluate(v, status, viols)
        out.append({"id": vid, "property": v.prop, "kind": v.kind, "rule": v.rule, "status": status,
                    "ok": ok, "what": what, "wall_s": round(wall, 2)})
    return out


def selfcheck(pid: str, ctx, rep: Report, seed: int) -> int:
    """Thorough tier: run the property's variants, record counts in the evidence file.
    Never changes the verdict (returns 0)."""
    import json

    res = run_all([pid], root=ctx.root)
    bad = [r for r in res if not r["ok"]]
    for r in bad:
        print(f"SELFTEST-MISMATCH property={pid} variant={r['id']} ({r['kind']}): {r['what']}")
    summary = {
        "variants": len(res),
        "faults_fired": len([r for r in res if r["kind"] == "fault" and r["ok"] and r["status"] == "ran"]),
        "twins_silent": len([r for r in res if r["kind"] == "twin" and r["ok"] and r["status"] == "ran"]),
        "skipped": len([r for r in res if r["status"] == "skipped"]),
        "mismatches": [r["id"] + ": " + r["what"] for r in bad],
    }
    print(f"{pid} self-test: {summary['variants']} variants, {summary['faults_fired']} faults fired, "
          f"{summary['twins_silent']} twins silent, {summary['skipped']} skipped, {len(bad)} mismatches")
    # merge into the evidence file written by Report.finish
    from .report import EVIDENCE_DIR

    path = os.path.join(EVIDENCE_DIR, f"{pid}.json")
    try:
        with open(path) as fp:
            ev = json.load(fp)
        ev["coverage"]["selftest"] = summary
        ev["coverage"]["selftest_samples"] = [{k: r[k] for k in ("id", "kind", "rule", "what")} for r in res[:40]]
        with open(path + ".tmp", "w") as fp:
            json.dump(ev, fp, indent=1, default=str)
        os.replace(path + ".tmp", path)
    except Exception as e:  # pragma: no cover
        print(f"warning: could not record self-test in evidence: {e}")
    return 0


def main_selftest(props=None) -> int:
    res = run_all(props)
    bad = [r for r in res if not r["ok"]]
    for r in res:
        flag = "ok " if r["ok"] else "BAD"
        print(f"{flag} {r['property']} {r['id']:<34} {r['kind']:<5} {r['what'][:110]} ({r['wall_s']}s)")
    print(f"{len(res)} variants, {len(bad)} mismatches, {len([r for r in res if r['status']=='skipped'])} skipped")
    return 2 if bad else 0
