"""Guard facts for partial operations on request-derived data (R03b / R02c / R20b).

A *site* is an operation that raises on some operand values:
  P1 constant-index subscript       needs  len(X) > k
  P2 tuple unpacking of a sequence   needs  len(X) == n
  P3 int()/float() of text           needs  digits (or a ValueError handler)
  P4 next(it) without default        needs  a StopIteration handler
  P5 urlparse/urlsplit of text       needs  a ValueError handler
  P6 .group()/.groups() on a match   needs  a None test of that match
  P7 e.args[k>=1] of a caught error  needs  a length test
  P8 mailbox.mbox/Maildir(create=False/…) needs a handler for mailbox errors
Facts come from the decisions taken on every walker path that reaches the site
(`len(X) OP c`, truthiness, startswith/==, regex width, earlier evaluation of the same
operation), from the defining expression of X (split, comprehension over a split,
parse_qs values, regex groups), from an enclosing handler for the raised class, and
from the *accept facts* of the class's own canhandlerequest (post-conditions of an
accepting run, valid in every method that runs after acceptance).
"""

from __future__ import annotations

import ast
import re
from typing import Dict, List, Optional, Set, Tuple

from .loader import ClassInfo, FuncInfo, clear_norm_cache, dotted, norm
from .paths import Event, Path, Walker, truth
from .structure import enclosing_handlers, enclosing_tries, catches

try:
    import re._parser as sre_parse  # type: ignore
except Exception:  # pragma: no cover
    import sre_parse  # type: ignore

RAISES = {"P1": "IndexError", "P2": "ValueError", "P3": "ValueError", "P4": "StopIteration", "P5": "ValueError",
          "P6": "AttributeError", "P7": "IndexError", "P8": "NoSuchMailboxError"}


class Site:
    __slots__ = ("kind", "node", "func", "concrete", "subject", "need", "note")

    def __init__(self, kind, node, func, concrete, subject=None, need=None, note=""):
        self.kind = kind
        self.node = node
        self.func = func
        self.concrete = concrete
        self.subject = subject  # AST of X
        self.need = need  # P1: required length; P2: exact length; P6: match expr
        self.note = note

    @property
    def text(self) -> str:
        return norm(self.node)


# ------------------------------------------------------------------ expansion
def single_defs(func: FuncInfo) -> Dict[str, ast.AST]:
    """local name -> defining expression, for names assigned exactly once (from an
    expression, or as element i of a tuple-unpack: represented as Subscript)."""
    cached = getattr(func, "_pgv_defs", None)
    if cached is not None:
        return cached
    counts: Dict[str, int] = {}
    defs: Dict[str, ast.AST] = {}
    for n in ast.walk(func.node):
        tgts = []
        if isinstance(n, ast.Assign):
            for t in n.targets:
                if isinstance(t, ast.Name):
                    counts[t.id] = counts.get(t.id, 0) + 1
                    defs[t.id] = n.value
                elif isinstance(t, (ast.Tuple, ast.List)):
                    for i, e in enumerate(t.elts):
                        if isinstance(e, ast.Name):
                            counts[e.id] = counts.get(e.id, 0) + 1
                            defs[e.id] = ast.Subscript(value=n.value, slice=ast.Constant(value=i), ctx=ast.Load())
        elif isinstance(n, (ast.AugAssign, ast.AnnAssign)) and isinstance(n.target, ast.Name):
            counts[n.target.id] = counts.get(n.target.id, 0) + 2
        elif isinstance(n, (ast.For, ast.AsyncFor)):
            for e in ast.walk(n.target):
                if isinstance(e, ast.Name):
                    counts[e.id] = counts.get(e.id, 0) + 2
        elif isinstance(n, ast.NamedExpr) and isinstance(n.target, ast.Name):
            counts[n.target.id] = counts.get(n.target.id, 0) + 1
            defs[n.target.id] = n.value
        elif isinstance(n, (ast.With, ast.AsyncWith)):
            for it in n.items:
                if isinstance(it.optional_vars, ast.Name):
                    counts[it.optional_vars.id] = counts.get(it.optional_vars.id, 0) + 2
        elif isinstance(n, ast.ExceptHandler) and n.name:
            counts[n.name] = counts.get(n.name, 0) + 2
        elif isinstance(n, ast.comprehension):
            for e in ast.walk(n.target):
                if isinstance(e, ast.Name):
                    counts[e.id] = counts.get(e.id, 0) + 2
    for p in func.params + func.kwonly:
        counts[p] = counts.get(p, 0) + 2
    out = {k: v for k, v in defs.items() if counts.get(k) == 1}
    func._pgv_defs = out
    return out


class _Expander(ast.NodeTransformer):
    def __init__(self, defs, depth=0):
        self.defs = defs
        self.depth = depth

    def visit_Name(self, node):
        if isinstance(node.ctx, ast.Load) and node.id in self.defs and self.depth < 6:
            sub = _Expander(self.defs, self.depth + 1)
            import copy

            return sub.visit(copy.deepcopy(self.defs[node.id]))
        return node


def _load_names(node: ast.AST):
    cached = getattr(node, "_pgv_names", None)
    if cached is None:
        cached = frozenset(n.id for n in ast.walk(node) if isinstance(n, ast.Name) and isinstance(n.ctx, ast.Load))
        try:
            node._pgv_names = cached
        except Exception:
            pass
    return cached


def _defs_key(expr: ast.AST, defs):
    """Identity of the part of `defs` an expansion of `expr` can consult (None = nothing to substitute)."""
    seen = {}
    work = [n for n in _load_names(expr) if n in defs]
    if not work:
        return None
    while work:
        n = work.pop()
        if n in seen:
            continue
        d = defs[n]
        seen[n] = id(d)
        work.extend(m for m in _load_names(d) if m in defs and m not in seen)
    return tuple(sorted(seen.items()))


_EXPAND_MEMO: Dict = {}


def _expanded(expr: ast.AST, defs):
    """(expanded tree, its text); memoised on the expression and the definitions it can reach."""
    import copy

    key = _defs_key(expr, defs)
    if key is None:
        return expr, None
    mk = (id(expr), key)
    hit = _EXPAND_MEMO.get(mk)
    if hit is not None and hit[0] is expr:
        return hit[1], hit[2]
    new = _Expander(defs).visit(copy.deepcopy(expr))
    new = clear_norm_cache(ast.fix_missing_locations(new))
    if len(_EXPAND_MEMO) > 200000:
        _EXPAND_MEMO.clear()
    # keep `expr` and the definitions alive so the ids in the key stay valid
    _EXPAND_MEMO[mk] = (expr, new, None, [defs[n] for n, _ in key])
    return new, None


def expand_ast(expr: ast.AST, func: FuncInfo, defs: Dict[str, ast.AST] = None) -> ast.AST:
    if defs is None:
        defs = single_defs(func) if func is not None else {}
    if not defs:
        return expr
    try:
        import copy

        new, _ = _expanded(expr, defs)
        # callers may edit the result: hand out a private copy of memoised trees
        return new if new is expr else copy.deepcopy(new)
    except Exception:
        return expr


def expand(expr: ast.AST, func: FuncInfo, defs: Dict[str, ast.AST] = None) -> str:
    """Normalised text of expr with locals replaced by their definitions: the
    flow-sensitive snapshot `defs` when given, else single-assignment locals."""
    if defs is None:
        defs = single_defs(func) if func is not None else {}
    if not defs:
        return norm(expr)
    try:
        new, _ = _expanded(expr, defs)
        return norm(new)
    except Exception:
        return norm(expr)


# ---------------------------------------------------------------------- regex
def regex_pieces(node: ast.AST, func: FuncInfo, prog=None, concrete=None) -> Optional[List[Optional[str]]]:
    """Pattern expression -> list of constant pieces (None for unknown pieces)."""
    defs = single_defs(func)
    if isinstance(node, ast.Name) and node.id in defs:
        return regex_pieces(defs[node.id], func, prog, concrete)
    if isinstance(node, ast.Constant) and isinstance(node.value, (str, bytes)):
        v = node.value
        return [v if isinstance(v, str) else v.decode("latin-1")]
    if isinstance(node, ast.BinOp) and isinstance(node.op, ast.Add):
        a = regex_pieces(node.left, func, prog, concrete)
        b = regex_pieces(node.right, func, prog, concrete)
        if a is None or b is None:
            return None
        return a + b
    if isinstance(node, ast.JoinedStr):
        out = []
        for v in node.values:
            if isinstance(v, ast.Constant):
                out.append(v.value)
            else:
                out.append(None)
        return out
    if isinstance(node, ast.Call):
        return [None]
    return None


def regex_min_width(pieces: List[Optional[str]]) -> int:
    total = 0
    text = "".join(p for p in pieces if p is not None)
    # only safe when all pieces are known; unknown pieces contribute >= 0 and we parse the
    # known pieces separately
    if all(p is not None for p in pieces):
        try:
            return sre_parse.parse(text).getwidth()[0]
        except Exception:
            return 0
    for p in pieces:
        if p is None:
            continue
        try:
            total += sre_parse.parse(p).getwidth()[0]
        except Exception:
            pass
    return total


def regex_groups(pieces: List[Optional[str]]) -> List[str]:
    """Sub-pattern sources of the capture groups contained in the known pieces, in order."""
    out = []
    for p in pieces:
        if p is None:
            continue
        try:
            tree = sre_parse.parse(p)
        except Exception:
            continue

        def walk(items):
            for op, av in items:
                name = str(op)
                if name == "SUBPATTERN":
                    if av[0] is not None:
                        out.append(av[3])
                    walk(av[3])
                elif name in ("MAX_REPEAT", "MIN_REPEAT", "POSSESSIVE_REPEAT"):
                    walk(av[2])
                elif name == "BRANCH":
                    for alt in av[1]:
                        walk(alt)
        walk(tree)
    return out


def group_is_digits(sub) -> bool:
    """Is the group's sub-pattern one-or-more decimal digits only?"""
    items = list(sub)
    if len(items) != 1:
        return False
    op, av = items[0]
    if str(op) not in ("MAX_REPEAT", "MIN_REPEAT", "POSSESSIVE_REPEAT"):
        return False
    lo, hi, body = av
    if lo < 1:
        return False
    body = list(body)
    if len(body) != 1:
        return False
    bop, bav = body[0]
    if str(bop) == "IN":
        return all(str(x[0]) == "CATEGORY" and str(x[1]) == "CATEGORY_DIGIT" or
                   (str(x[0]) == "RANGE" and chr(x[1][0]).isdigit() and chr(x[1][1]).isdigit()) or
                   (str(x[0]) == "LITERAL" and chr(x[1]).isdigit()) for x in bav)
    return False


# ------------------------------------------------------------------- min_len
class Fact:
    __slots__ = ("node", "truth", "func", "defs")

    def __init__(self, node, truth, func, defs=None):
        self.node = node
        self.truth = truth
        self.func = func
        self.defs = defs


def _const_len(node) -> Optional[int]:
    if isinstance(node, ast.Constant) and isinstance(node.value, (str, bytes)):
        return len(node.value)
    if isinstance(node, (ast.Tuple, ast.List)) and node.elts and all(isinstance(e, ast.Constant) and isinstance(e.value, (str, bytes)) for e in node.elts):
        return min(len(e.value) for e in node.elts)
    return None


def _int(node) -> Optional[int]:
    if isinstance(node, ast.Constant) and isinstance(node.value, int) and not isinstance(node.value, bool):
        return node.value
    if isinstance(node, ast.UnaryOp) and isinstance(node.op, ast.USub) and isinstance(node.operand, ast.Constant) \
            and isinstance(node.operand.value, int):
        return -node.operand.value
    return None


def fact_min_len(f: Fact, subject: str) -> int:
    """Lower bound on len(subject) implied by one decided test (0 = nothing)."""
    t, func = f.truth, f.func
    defs = f.defs if f.defs is not None else (single_defs(func) if func is not None else {})
    mk = ("fml", id(f.node), _defs_key(f.node, defs) if defs else None, t, subject)
    hit = _EXPAND_MEMO.get(mk)
    if hit is not None and hit[0] is f.node:
        return hit[1]
    res = _fact_min_len_uncached(f, subject, defs)
    _EXPAND_MEMO[mk] = (f.node, res, [defs[k] for k, _ in (mk[2] or ())])
    return res


def _fact_min_len_uncached(f: Fact, subject: str, defs) -> int:
    t, func = f.truth, f.func
    try:
        n, _ = _expanded(f.node, defs) if defs else (f.node, None)  # shared tree: read only
    except Exception:
        n = f.node

    def is_subj(e) -> bool:
        return norm(e) == subject

    # the test was evaluated: every constant-index subscript inside it succeeded
    best = 0
    for sub in ast.walk(n):
        if isinstance(sub, ast.Subscript) and not isinstance(sub.slice, ast.Slice) and _int(sub.slice) is not None \
                and is_subj(sub.value):
            k = _int(sub.slice)
            best = max(best, k + 1 if k >= 0 else -k)
    if best:
        return max(best, _fact_min_len_core(n, f, subject, is_subj))
    return _fact_min_len_core(n, f, subject, is_subj)


def _fact_min_len_core(n, f: Fact, subject: str, is_subj) -> int:
    t, func = f.truth, f.func

    def is_len_of_subj(e) -> bool:
        return isinstance(e, ast.Call) and dotted(e.func) == "len" and len(e.args) == 1 and is_subj(e.args[0])

    # truthiness of X or len(X)
    if t and (is_subj(n) or is_len_of_subj(n)):
        return 1
    if isinstance(n, ast.Compare) and len(n.ops) == 1:
        op, left, right = n.ops[0], n.left, n.comparators[0]
        # len(X) OP c   /  c OP len(X)
        for a, b, flip in ((left, right, False), (right, left, True)):
            if is_len_of_subj(a) and _int(b) is not None:
                c = _int(b)
                o = type(op)
                if flip:
                    o = {ast.Lt: ast.Gt, ast.Gt: ast.Lt, ast.LtE: ast.GtE, ast.GtE: ast.LtE}.get(o, o)
                if o is ast.Eq:
                    return c if t else (1 if c == 0 else 0)
                if o is ast.NotEq:
                    return (1 if c == 0 else 0) if t else c
                if o is ast.Gt:
                    return c + 1 if t else 0
                if o is ast.GtE:
                    return c if t else 0
                if o is ast.Lt:
                    return 0 if t else c
                if o is ast.LtE:
                    return 0 if t else c + 1
        # X == c / X in (c1, c2)
        if t and isinstance(op, (ast.Eq, ast.In)) and is_subj(left):
            cl = _const_len(right)
            if cl is not None:
                return cl
        if t and isinstance(op, ast.Eq) and is_subj(right):
            cl = _const_len(left)
            if cl is not None:
                return cl
        if (not t) and isinstance(op, ast.NotEq) and is_subj(left):
            cl = _const_len(right)
            if cl is not None:
                return cl
        # X[a:b] == c
        if t and isinstance(op, ast.Eq):
            for a, b in ((left, right), (right, left)):
                if isinstance(a, ast.Subscript) and isinstance(a.slice, ast.Slice) and is_subj(a.value):
                    cl = _const_len(b)
                    if cl is not None and (a.slice.lower is None or _int(a.slice.lower) == 0):
                        return cl
    if isinstance(n, ast.Call):
        d = dotted(n.func) or ""
        # X.startswith(c) / X.endswith(c)
        if t and isinstance(n.func, ast.Attribute) and n.func.attr in ("startswith", "endswith") and is_subj(n.func.value) and n.args:
            cl = _const_len(n.args[0])
            if cl is not None:
                return cl
        # re.search/match(P, X)
        if t and d in ("re.search", "re.match", "re.fullmatch") and len(n.args) >= 2 and is_subj(n.args[1]):
            pieces = regex_pieces(n.args[0], func)
            if pieces is not None:
                return regex_min_width(pieces)
    return 0


def def_min_len(expr: ast.AST, func: FuncInfo, prog=None, concrete=None, depth=0) -> int:
    """Lower bound on the length of the value of `expr` from its own shape."""
    if depth > 6:
        return 0
    defs = single_defs(func)
    if isinstance(expr, ast.Name) and expr.id in defs:
        return def_min_len(defs[expr.id], func, prog, concrete, depth + 1)
    if isinstance(expr, ast.Constant) and isinstance(expr.value, (str, bytes, tuple)):
        return len(expr.value)
    if isinstance(expr, (ast.List, ast.Tuple)) and not any(isinstance(e, ast.Starred) for e in expr.elts):
        return len(expr.elts)
    if isinstance(expr, ast.Call):
        if isinstance(expr.func, ast.Attribute) and expr.func.attr in ("split", "rsplit", "splitlines", "partition", "rpartition"):
            if expr.func.attr in ("partition", "rpartition"):
                return 3
            if expr.func.attr == "splitlines":
                return 0
            # str.split(sep) always returns at least one element; split() (no sep) may return []
            return 1 if expr.args else 0
        d = dotted(expr.func) or ""
        if d in ("list", "tuple", "sorted") and expr.args:
            return def_min_len(expr.args[0], func, prog, concrete, depth + 1)
        if isinstance(expr.func, ast.Attribute) and expr.func.attr == "groups":
            m = expr.func.value
            pat = match_pattern(m, func)
            if pat is not None:
                return len(regex_groups(pat))
        # a helper of the repository with a single return: the bound of what it returns (its parameters unknown)
        if prog is not None and d:
            callee = None
            if d.startswith("self.") and d.count(".") == 1 and concrete is not None:
                callee = prog.resolve_method(concrete, d.split(".")[1])
            elif not d.startswith("self"):
                try:
                    res = prog.resolve_dotted(func.module, d)
                except Exception:
                    res = None
                if res and res[0] == "func":
                    callee = res[1]
            if callee is not None and callee is not func:
                rets = [n for n in ast.walk(callee.node) if isinstance(n, ast.Return)]
                if len(rets) == 1 and rets[0].value is not None:
                    return def_min_len(rets[0].value, callee, prog, callee.cls or concrete, depth + 2)
    if isinstance(expr, ast.ListComp) and len(expr.generators) == 1 and not expr.generators[0].ifs:
        return def_min_len(expr.generators[0].iter, func, prog, concrete, depth + 1)
    if isinstance(expr, ast.Subscript) and not isinstance(expr.slice, ast.Slice):
        # a value looked up in a parse_qs() dictionary is a non-empty list
        base = expr.value
        if _all_defs_are(base, func, prog, concrete, ("parse_qs", "parse_qsl")):
            return 1
    if isinstance(expr, ast.Attribute) and dotted(expr) and dotted(expr).startswith("self.") and prog is not None and concrete is not None:
        vals = attr_defs(prog, concrete, expr.attr)
        if vals:
            return min(def_min_len(v, f, prog, concrete, depth + 1) for v, f in vals)
    return 0


def attr_defs(prog, concrete: ClassInfo, attr: str) -> List[Tuple[ast.AST, FuncInfo]]:
    out = []
    for c in prog.mro(concrete):
        for m in c.methods.values():
            for n in ast.walk(m.node):
                if isinstance(n, ast.Assign):
                    for t in n.targets:
                        if isinstance(t, ast.Attribute) and t.attr == attr and dotted(t.value) == "self":
                            out.append((n.value, m))
                elif isinstance(n, ast.AugAssign) and isinstance(n.target, ast.Attribute) and n.target.attr == attr \
                        and dotted(n.target.value) == "self":
                    out.append((ast.Constant(value=None), m))
    return out


def _all_defs_are(base: ast.AST, func: FuncInfo, prog, concrete, names) -> bool:
    vals = []
    defs = single_defs(func)
    if isinstance(base, ast.Name) and base.id in defs:
        vals = [(defs[base.id], func)]
    elif isinstance(base, ast.Attribute) and dotted(base) and dotted(base).startswith("self.") and prog is not None and concrete is not None:
        vals = attr_defs(prog, concrete, base.attr)
    if not vals:
        return False
    ok_any = False
    for v, f in vals:
        if isinstance(v, ast.Dict) and not v.keys:
            continue  # an empty dict has no keys: a successful lookup came from elsewhere
        if isinstance(v, ast.Call) and (dotted(v.func) or "").split(".")[-1] in names:
            ok_any = True
            continue
        return False
    return ok_any


def match_pattern(m: ast.AST, func: FuncInfo) -> Optional[List[Optional[str]]]:
    """Pattern pieces of the re.match/search call that produced match object `m`."""
    defs = single_defs(func)
    if isinstance(m, ast.Name) and m.id in defs:
        m = defs[m.id]
    if isinstance(m, ast.NamedExpr):
        m = m.value
    if isinstance(m, ast.Call) and (dotted(m.func) or "") in ("re.search", "re.match", "re.fullmatch") and m.args:
        return regex_pieces(m.args[0], func)
    return None


# ------------------------------------------------------------------ site scan
def find_sites(func: FuncInfo, concrete, tainted) -> List[Site]:
    """Candidate sites in func; `tainted(expr_node) -> bool` decides request taint."""
    sites: List[Site] = []
    handlers_as = {}
    for n in ast.walk(func.node):
        if isinstance(n, ast.ExceptHandler) and n.name:
            handlers_as[n.name] = n
    for n in ast.walk(func.node):
        if isinstance(n, ast.Subscript) and isinstance(n.ctx, ast.Load) and not isinstance(n.slice, ast.Slice):
            k = _int(n.slice)
            if k is None:
                continue
            base = n.value
            # P7: e.args[k]
            if isinstance(base, ast.Attribute) and base.attr == "args" and isinstance(base.value, ast.Name) \
                    and base.value.id in handlers_as:
                if k >= 1 or k <= -2:
                    sites.append(Site("P7", n, func, concrete, base, k + 1 if k >= 0 else -k))
                continue
            if tainted(base):
                sites.append(Site("P1", n, func, concrete, base, k + 1 if k >= 0 else -k))
        elif isinstance(n, ast.Assign) and len(n.targets) == 1 and isinstance(n.targets[0], (ast.Tuple, ast.List)) \
                and not any(isinstance(e, ast.Starred) for e in n.targets[0].elts):
            v = n.value
            if isinstance(v, (ast.Tuple, ast.List)):
                continue
            if isinstance(v, ast.Call) and isinstance(v.func, ast.Attribute) and v.func.attr in ("split", "rsplit") \
                    and not (dotted(v.func) or "").startswith(("os.path.", "posixpath.", "ntpath.")):
                if tainted(v):
                    sites.append(Site("P2", n, func, concrete, v, len(n.targets[0].elts)))
        elif isinstance(n, ast.Call):
            d = dotted(n.func) or ""
            if d in ("int", "float") and len(n.args) >= 1 and tainted(n.args[0]):
                sites.append(Site("P3", n, func, concrete, n.args[0]))
            elif d == "next" and len(n.args) == 1:
                sites.append(Site("P4", n, func, concrete, n.args[0]))
            elif d.split(".")[-1] in ("urlparse", "urlsplit") and n.args and tainted(n.args[0]):
                sites.append(Site("P5", n, func, concrete, n.args[0]))
            elif isinstance(n.func, ast.Attribute) and n.func.attr in ("group", "groups", "groupdict", "end", "start", "span"):
                m = n.func.value
                if match_pattern(m, func) is not None or (isinstance(m, ast.Call) and (dotted(m.func) or "").startswith("re.")):
                    sites.append(Site("P6", n, func, concrete, m))
    return sites


# ------------------------------------------------------------- path analysis
def collect_site_paths(prog, resolver, func: FuncInfo, concrete, nodes: Set[int], inline=None,
                       fork_returns=False) -> Dict[int, List[Tuple[List[Fact], List[Event], Dict]]]:
    """For each watched node id: the facts/events preceding it on every path prefix
    that reaches it (recorded when the walker evaluates the node)."""
    # watched nodes inside `except` handlers are only reached when the try body raises:
    # let the first call of such a try body raise the handler's class
    from .structure import parents as _parents

    pm = _parents(func.node)
    raise_at = {}
    for n in ast.walk(func.node):
        if id(n) in nodes:
            cur = pm.get(n)
            while cur is not None and not isinstance(cur, (ast.FunctionDef, ast.AsyncFunctionDef)):
                if isinstance(cur, ast.ExceptHandler):
                    tr = pm.get(cur)
                    if isinstance(tr, ast.Try):
                        from .paths import handler_names

                        exc = handler_names(cur)[0].split(".")[-1]
                        first = None
                        for b in tr.body:
                            for c in ast.walk(b):
                                if isinstance(c, ast.Call):
                                    first = c
                                    break
                            if first is not None:
                                break
                        if first is not None:
                            raise_at.setdefault(id(first), set()).add(exc)
                cur = pm.get(cur)

    def rp(call, target):
        return sorted(raise_at.get(id(call), ()))

    w = _WatchWalker(prog, resolver, watch=nodes, inline=inline or (lambda f, t, d: False), fork_returns=fork_returns,
                     merge_loops=True, raise_points=rp if raise_at else None)
    try:
        w.run(func, concrete)
    except Exception:
        return {i: None for i in nodes}
    out: Dict[int, List] = {i: [] for i in nodes}
    for nid, snaps in w.snaps.items():
        for events, defs in snaps:
            facts = facts_from_events(events, func)
            out.setdefault(nid, []).append((facts, list(events), defs))
    return out


class _WatchWalker(Walker):
    def __init__(self, *a, watch=None, **kw):
        super().__init__(*a, **kw)
        self.watch = watch or set()
        self.snaps: Dict[int, List] = {}

    def _snap(self, node, st):
        ev = Event("site", node, None, self.frame)
        ev.defs = dict(st.defs)
        lst = self.snaps.setdefault(id(node), [])
        if len(lst) < 4000:
            lst.append((st.events, ev.defs))
        st.add(ev)

    def eval(self, node, st):
        res = super().eval(node, st)
        if id(node) in self.watch:
            for r in res:
                if r[0] == "val":
                    self._snap(node, r[2])
        return res

    def exec_stmt(self, stmt, st):
        if id(stmt) in self.watch:
            self._snap(stmt, st)
        return super().exec_stmt(stmt, st)


def facts_from_events(events, default_func) -> List["Fact"]:
    """Decided tests along a path as Facts.  A test on a local that an attribute was assigned from
    (`self.x = name`, neither rebound since) is recorded a second time in terms of the attribute, so that
    code reading the attribute later can use it."""
    import copy

    facts: List[Fact] = []
    alias: Dict[str, ast.AST] = {}
    lastcall: Dict = {}
    for ev in events:
        if ev.kind == "assign" and isinstance(ev.node, ast.Assign):
            for t in ev.node.targets:
                for x in ast.walk(t):
                    if isinstance(x, ast.Name):
                        alias.pop(x.id, None)
            tgt = ev.node.targets[0] if len(ev.node.targets) == 1 else None
            if isinstance(tgt, ast.Attribute) and dotted(tgt.value) == "self":
                for k in [k for k, v in alias.items() if norm(v) == norm(tgt)]:
                    del alias[k]
                if isinstance(ev.node.value, ast.Name):
                    alias[ev.node.value.id] = tgt
        if ev.kind == "call" and getattr(ev.target, "kind", "") == "repo" and len(ev.target.funcs) == 1 and ev.target.funcs[0] is not None:
            lastcall[ev.target.funcs[0]] = ev
        if ev.kind == "test" and ev.extra is not None:
            fn = ev.frame[0] if ev.frame else default_func
            facts.append(Fact(ev.node, bool(ev.extra), fn, ev.defs))
            cev = lastcall.get(fn) if fn is not default_func else None
            if cev is not None and isinstance(cev.node, ast.Call) and not any(isinstance(a, ast.Starred) for a in cev.node.args):
                # a test inside a helper that was walked as part of its caller: say it in the caller's terms too
                # (`_is_request_line(self.requestparts)`: len(fields) == 3  ->  len(self.requestparts) == 3)
                params = fn.params[1:] if (fn.cls is not None and fn.params[:1] in (["self"], ["cls"]) and isinstance(cev.node.func, ast.Attribute)
                                           and dotted(cev.node.func.value) in ("self", "cls", "super()")) else list(fn.params)
                bind = {p_: a_ for p_, a_ in zip(params, cev.node.args) if isinstance(a_, (ast.Attribute, ast.Name, ast.Subscript))}
                bind.update({k.arg: k.value for k in cev.node.keywords if k.arg in params and isinstance(k.value, (ast.Attribute, ast.Name, ast.Subscript))})
                stored = {x.id for x in ast.walk(fn.node) if isinstance(x, ast.Name) and isinstance(x.ctx, ast.Store)}
                bind = {k: v for k, v in bind.items() if k not in stored}
                usedp = {n.id for n in ast.walk(ev.node) if isinstance(n, ast.Name)} & set(bind)
                if usedp:
                    class _P(ast.NodeTransformer):
                        def visit_Name(self, n):
                            if n.id in bind and isinstance(n.ctx, ast.Load):
                                a = copy.deepcopy(bind[n.id])
                                a.ctx = ast.Load()
                                return a
                            return n

                    node3 = clear_norm_cache(ast.fix_missing_locations(_P().visit(copy.deepcopy(ev.node))))
                    facts.append(Fact(node3, bool(ev.extra), cev.frame[0] if cev.frame else default_func, {}))
            used = {n.id for n in ast.walk(ev.node) if isinstance(n, ast.Name)} & set(alias)
            if used:
                amap = dict(alias)

                class _A(ast.NodeTransformer):
                    def visit_Name(self, n):
                        if n.id in amap and isinstance(n.ctx, ast.Load):
                            a = copy.deepcopy(amap[n.id])
                            a.ctx = ast.Load()
                            return a
                        return n

                node2 = clear_norm_cache(ast.fix_missing_locations(_A().visit(copy.deepcopy(ev.node))))
                facts.append(Fact(node2, bool(ev.extra), fn, {k: v for k, v in (ev.defs or {}).items() if k not in used}))
    return facts


def accept_paths(prog, resolver, concrete: ClassInfo) -> Optional[List[Tuple[List[Fact], List[Event]]]]:
    """Facts/events of every accepting path of the class's resolved canhandlerequest."""
    cache = prog.__dict__.setdefault("_pgv_accept", {})
    if concrete in cache:
        return cache[concrete]
    can = prog.resolve_method(concrete, "canhandlerequest")
    result = None
    if can is not None:
        w = Walker(prog, resolver, fork_returns=True,
                   inline=lambda fn, t, d: t.bound_cls is not None or (fn.cls is not None and t.kind == "repo"
                                                                       and not t.by_name and len(t.funcs) == 1
                                                                       and fn.name == "canhandlerequest")
                   or (d < 2 and fn.cls is None and t.kind == "repo" and not t.by_name and fn.module.name.startswith("pygopherd.protocols")))
        try:
            result = []
            for p in w.run(can, concrete):
                if p.kind != "return" or truth(p.value) is False:
                    continue
                facts = facts_from_events(p.events, can)
                evs = list(p.events)
                result.append((facts, evs))
        except Exception:
            result = None
    cache[concrete] = result
    return result


def killed_attrs(evs: List[Event]) -> Set[str]:
    """self attributes (re)assigned by the events of a local path."""
    out = set()
    for ev in evs:
        if ev.kind == "assign" and isinstance(ev.target, str) and ev.target.startswith("self."):
            out.add(ev.target.split("[")[0])
    return out


def mentions_any(text: str, names: Set[str]) -> bool:
    return any(re.search(r"(?<![\w.])" + re.escape(n) + r"(?![\w])", text) for n in names)


def reachable_nodes(prog, resolver, func, concrete, nodes, assumptions=None, inline=None) -> Optional[Set[int]]:
    """ids of the watched nodes that some path evaluates under the assumptions (None = analysis failed)."""
    w = _WatchWalker(prog, resolver, watch=set(nodes), assumptions=assumptions or {}, sticky=set(assumptions or {}),
                     inline=inline or (lambda f, t, d: False), merge_loops=True)
    try:
        w.run(func, concrete)
    except Exception:
        return None
    return {nid for nid, snaps in w.snaps.items() if snaps}
