"""String-shape domain for selectors and file-system paths (used by C01/C16).

A value is a frozenset of *alternatives*; an alternative is a tuple of pieces:
  ('sel',)   an accepted selector or a prefix of one (starts with "/")
  ('fac',)   an arbitrary factor of an accepted selector
  ('raw',)   request text that has not passed the filter
  ('req',)   other request-derived text (search string, headers)
  ('content',) text read from served files / mail / link files
  ('name',)  one directory-entry name as returned by listdir (never "." or "..", no "/")
  ('cfg', key) a configuration value
  ('root',)  the document root
  ('c', s)   constant text
  ('int',)   a decimal number
  ('param', n) symbolic parameter
  ('obj', k) a non-string object (file, None, bool, ...)
  ('top',)   unknown
"""

from __future__ import annotations

import ast
import itertools
from typing import Dict, List, Optional

from .effects import Effects, VFS_METHODS, direct_effects
from .loader import dotted, norm
from .prov import Domain, Engine, Frame, TupleVal
from .strlang import accepts, representatives, climbs

TOPV = frozenset({(("top",),)})
# which positional argument of an external callee is the path
PATH_ARG_INDEX = {"importlib.machinery.SourceFileLoader": 1, "importlib.util.spec_from_file_location": 1}
MAX_ALTS = 24
MAX_PIECES = 10


def V(*pieces):
    return frozenset({tuple(pieces)})


def OBJ(kind):
    return V(("obj", kind))


def merge_consts(pieces):
    out = []
    for p in pieces:
        if p[0] == "c" and out and out[-1][0] == "c":
            out[-1] = ("c", out[-1][1] + p[1])
        elif p[0] == "c" and p[1] == "":
            if not out:
                out.append(p)
        else:
            if out and out[-1] == ("c", ""):
                out.pop()
            out.append(p)
    return tuple(out) if out else (("c", ""),)


def is_stringy(alt) -> bool:
    return not any(p[0] == "obj" for p in alt)


class ShapeDomain(Domain):
    STR_KEEP = {"strip", "rstrip", "lstrip", "lower", "upper", "decode", "encode", "expandtabs", "title",
                "capitalize", "casefold", "swapcase", "format_map", "__str__", "removesuffix", "removeprefix"}

    def __init__(self, prog, eff: Effects, handler_base, relaxed=()):
        self.prog = prog
        self.eff = eff
        self.handler_base = handler_base
        self.relaxed = set(relaxed)
        self.sites: Dict = {}  # (func qualname, call text) -> dict(info)
        self.quiet = 0
        self.param_seeds: Dict = {}

    # ------------------------------------------------------------- lattice
    def top(self):
        return TOPV

    def bottom(self):
        return frozenset()

    def const(self, value):
        if isinstance(value, str):
            return V(("c", value))
        if isinstance(value, bytes):
            try:
                return V(("c", value.decode("latin-1")))
            except Exception:
                return OBJ("bytes")
        if isinstance(value, bool) or value is None:
            return OBJ(repr(value))
        if isinstance(value, int):
            return V(("int",))
        if isinstance(value, tuple) and not value:
            return OBJ("empty")
        return OBJ(type(value).__name__)

    def join(self, a, b):
        if a is None:
            return b
        if b is None:
            return a
        u = a | b
        if len(u) > MAX_ALTS:
            # keep non-object alternatives distinct as long as possible
            return TOPV
        return u

    def concat(self, parts):
        alts = [()]
        for part in parts:
            if part is None:
                part = TOPV
            new = []
            for a in alts:
                for b in part:
                    if len(b) == 1 and b[0][0] == "obj":
                        # formatting an object into a string: its text is unknown but inert
                        if b[0][1] in ("None", "True", "False", "empty"):
                            piece = (("c", ""),) if b[0][1] == "empty" else (("c", b[0][1]),)
                        else:
                            piece = (("top",),)
                        new.append(a + piece)
                    else:
                        new.append(a + b)
            alts = new
            if len(alts) > MAX_ALTS * 4:
                return TOPV
        out = set()
        for a in alts:
            m = merge_consts(a)
            if len(m) > MAX_PIECES:
                return TOPV
            out.add(m)
        if len(out) > MAX_ALTS:
            return TOPV
        return frozenset(out)

    def container(self, elems):
        v = None
        for e in elems:
            v = self.join(v, e)
        return v if v is not None else OBJ("empty")

    def elem(self, v):
        return v

    def compare(self, node, vals):
        return OBJ("bool")

    def subscript(self, base, node, index):
        out = set()
        sl = node.slice
        for alt in base:
            if len(alt) == 1 and alt[0][0] == "obj":
                out.add((("top",),) if alt[0][1] not in ("None",) else alt)
                continue
            pure = len(alt) == 1
            kind = alt[0][0]
            if isinstance(sl, ast.Slice):
                prefix = sl.lower is None or (isinstance(sl.lower, ast.Constant) and sl.lower.value == 0)
                if pure and kind in ("sel",):
                    out.add((("sel",),) if prefix else (("fac",),))
                elif pure and kind in ("fac", "raw", "req", "content", "top", "name", "param"):
                    out.add(alt if kind != "name" else (("fac",),))
                elif pure and kind == "c":
                    try:
                        lo = sl.lower.value if isinstance(sl.lower, ast.Constant) else None
                        hi = sl.upper.value if isinstance(sl.upper, ast.Constant) else None
                        if (sl.lower is None or isinstance(sl.lower, ast.Constant)) and \
                                (sl.upper is None or isinstance(sl.upper, ast.Constant)) and sl.step is None:
                            out.add((("c", alt[0][1][lo:hi]),))
                        else:
                            out.add((("top",),))
                    except Exception:
                        out.add((("top",),))
                elif prefix and alt[-1][0] in ("sel", "fac", "param", "name"):
                    # dropping a tail of the last (variable) piece keeps the shape
                    out.add(alt)
                elif all(p[0] in ("sel", "fac", "c", "int") for p in alt):
                    out.add((("fac",),) if not any(p[0] == "c" for p in alt) else (("top",),))
                else:
                    out.add((("top",),))
            else:
                # single index: one character / one element
                if pure and kind in ("sel", "fac"):
                    out.add((("fac",),))
                elif pure and kind in ("raw", "req", "content", "name", "cfg", "top", "param"):
                    out.add(alt)
                elif pure and kind == "c":
                    out.add((("top",),))
                else:
                    out.add(alt)  # element of a collapsed container
        if len(out) > MAX_ALTS:
            return TOPV
        return frozenset(out)

    # --------------------------------------------------------------- seeds
    def param_default(self, func, param, eng):
        if func.cls is not None and self.handler_base is not None and func.name == "__init__" \
                and self.prog.is_subclass(func.cls, self.handler_base):
            return {
                "selector": V(("sel",)), "searchrequest": V(("req",)), "protocol": OBJ("protocol"),
                "config": OBJ("config"), "statresult": OBJ("stat"), "vfs": OBJ("vfs"),
            }.get(param)
        key = (func.qualname, param)
        if key in self.param_seeds:
            return self.param_seeds[key]
        if param in ("config",):
            return OBJ("config")
        if param in ("vfs", "chain"):
            return OBJ("vfs")
        if param in ("wfile", "rfile", "fd", "fp"):
            return OBJ("file")
        return None

    def seed_self_attr(self, concrete, attr, eng):
        if attr == "config":
            return OBJ("config")
        if attr in ("vfs", "chain"):
            return OBJ("vfs")
        if attr in ("wfile", "rfile"):
            return OBJ("file")
        return None

    def name(self, ident, eng, fr):
        return None

    def attr(self, recv, name, node, eng, fr):
        # fields of entries are joined program-wide
        if name in ("selector", "fspath") and recv is not None:
            return eng.field(name, fr)
        return None

    # ------------------------------------------------------------ transfers
    def _cfgkey(self, call, fr=None):
        if call is not None and len(call.args) >= 2 and all(isinstance(a, ast.Constant) for a in call.args[:2]):
            return f"{call.args[0].value}.{call.args[1].value}"
        if call is not None and len(call.args) >= 2 and fr is not None:
            # section / option named by a class or module constant
            from .paths import NOCONST, const_value

            vals = []
            for a in call.args[:2]:
                v = a.value if isinstance(a, ast.Constant) else const_value(self.prog, a, getattr(fr, "func", None), getattr(fr, "concrete", None))
                if v is NOCONST or not isinstance(v, str):
                    return "?"
                vals.append(v)
            return f"{vals[0]}.{vals[1]}"
        return "?"

    def call_ext(self, name, call, recv, args, kws, eng, fr):
        short = name.split(".")[-1] if name else ""
        if name == "<exception>":
            return V(("top",))
        if name.startswith("<attr>"):
            return OBJ("ext")
        if name.startswith("<ctor>"):
            return OBJ("instance:" + name[6:])
        # configuration
        if short in ("get", "getint", "getboolean", "getfloat") and recv is not None and recv == OBJ("config"):
            return V(("cfg", self._cfgkey(call, fr))) if short == "get" else V(("int",))
        if short == "has_option":
            return OBJ("bool")
        if name in ("builtins.eval", "ast.literal_eval") and args:
            return args[0]
        # string-preserving
        if name == "?." + short and short in ("strip", "rstrip", "lstrip") and recv is not None and call.args \
                and isinstance(call.args[0], ast.Constant) and isinstance(call.args[0].value, str) and "/" in call.args[0].value:
            # stripping slashes: what is left of `/` is the empty string, of `/a/` (lstrip) `a/` - accepted text, but no
            # longer known to start with a slash (root + '' + '.abstract' is a neighbour of the root)
            out = set()
            for alt in recv:
                if alt and alt[0][0] == "sel":
                    out.add((("fac",),) + tuple(alt[1:]))
                elif alt and alt[0][0] == "c" and alt[0][1].startswith("/") and len(alt) == 1:
                    out.add((("c", alt[0][1].strip("/") if short != "rstrip" else alt[0][1].rstrip("/")),))
                else:
                    out.add(alt)
            return frozenset(out)
        if name == "?." + short and short in self.STR_KEEP and recv is not None:
            return recv
        if name in ("os.fsencode", "os.fsdecode", "os.fspath", "builtins.str", "builtins.bytes", "typing.cast") and args:
            v = args[-1] if name == "typing.cast" else args[0]
            if name == "builtins.str":
                return frozenset((("int",),) if a == (("obj", "int"),) else ((("top",),) if (len(a) == 1 and a[0][0] == "obj") else a) for a in v)
            return v
        if name in ("builtins.int", "builtins.len", "builtins.float"):
            return V(("int",))
        if name == "?.format" and recv is not None:
            return self.concat([recv] + list(args) + list(kws.values()))
        if name == "?.join" and recv is not None and args:
            return self.concat([args[0], recv, args[0]]) | args[0]
        if name in ("?.split", "?.rsplit", "?.partition", "?.rpartition", "?.splitlines") and recv is not None:
            out = set()
            for alt in recv:
                if len(alt) == 1 and alt[0][0] == "sel":
                    out.add((("sel",),))
                    out.add((("fac",),))
                elif len(alt) == 1 and alt[0][0] in ("fac", "raw", "req", "content", "top", "cfg", "name"):
                    out.add(alt)
                elif all(p[0] in ("sel", "fac") for p in alt):
                    out.add((("fac",),))
                else:
                    out.add((("top",),))
            return frozenset(out)
        if name == "?.replace" and recv is not None:
            return frozenset((("top",),) if is_stringy(a) else a for a in recv)
        # os.path
        if name == "os.path.join" and args:
            cur = args[0]
            for b in args[1:]:
                joined = set()
                for a2 in cur:
                    for b2 in b:
                        first = b2[0]
                        relative = (first[0] == "c" and not first[1].startswith("/") and first[1] != "") \
                            or first[0] in ("name", "int")
                        empty_left = a2 == (("c", ""),)
                        if empty_left:
                            joined.add(merge_consts(b2))
                        else:
                            sep = () if (a2[-1][0] == "c" and a2[-1][1].endswith("/")) else (("c", "/"),)
                            joined.add(merge_consts(a2 + sep + b2))
                        if not relative:
                            joined.add(merge_consts(b2))  # absolute second component discards the first
                cur = frozenset(joined) if len(joined) <= MAX_ALTS else TOPV
            return cur
        if name in ("os.path.split", "os.path.splitext"):
            heads, tails = set(), set()
            for alt in args[0] if args else TOPV:
                if len(alt) == 1 and alt[0][0] == "sel":
                    heads.add((("sel",),))
                    tails.add((("fac",),))
                elif len(alt) == 1 and alt[0][0] in ("fac", "raw", "req", "content", "top"):
                    heads.add(alt)
                    tails.add(alt)
                elif all(p[0] in ("sel", "fac") for p in alt):
                    heads.add((("sel",),) if alt[0][0] == "sel" else (("fac",),))
                    tails.add((("fac",),))
                else:
                    heads.add((("top",),))
                    tails.add((("top",),))
            return TupleVal((frozenset(heads), frozenset(tails)))
        if name == "os.path.dirname" and args:
            return frozenset((("sel",),) if a == (("sel",),) else (a if len(a) == 1 and a[0][0] in ("raw", "req", "content", "fac") else (("top",),)) for a in args[0])
        if name == "os.path.basename" and args:
            return frozenset((("fac",),) if a in ((("sel",),), (("fac",),)) else (a if len(a) == 1 and a[0][0] in ("raw", "req", "content", "name") else (("top",),)) for a in args[0])
        if name in ("os.path.normpath", "os.path.abspath", "os.path.realpath", "os.path.expanduser", "os.path.expandvars"):
            return frozenset((("top",),) if is_stringy(a) else a for a in (args[0] if args else TOPV))
        if name == "os.listdir":
            return V(("name",))
        # file-like reads -> content
        if short in ("read", "readline", "readlines", "recv", "as_bytes", "as_string", "get_payload") and name.startswith("?."):
            return V(("content",))
        if name.startswith("?.") and short in ("get",) and recv is not None:
            # dict / message .get: content when the receiver is content-like, else unknown
            return frozenset((("content",),) if a == (("obj", "message"),) else (("top",),) for a in recv) if recv != OBJ("config") else TOPV
        if name in ("builtins.open", "io.open", "codecs.open", "?.open"):
            return OBJ("file")
        if name in ("urllib.parse.unquote", "urllib.parse.unquote_plus"):
            return V(("raw",))
        if name in ("builtins.enumerate", "builtins.range"):
            return V(("int",))
        if name in ("?.items", "?.keys", "?.values", "?.copy") and recv is not None:
            return recv
        if name in ("builtins.iter", "builtins.next", "builtins.list", "builtins.tuple", "builtins.sorted",
                    "builtins.reversed", "builtins.set", "builtins.frozenset") and args:
            return args[0]
        if name in ("builtins.getattr",):
            return TOPV
        if name in ("builtins.isinstance", "builtins.hasattr", "builtins.bool"):
            return OBJ("bool")
        if name.startswith("mailbox."):
            return OBJ("mailbox")
        if name.startswith(("re.", "stat.", "time.", "html.", "pickle.", "functools.", "importlib.", "subprocess.",
                            "zipfile.", "shelve.", "codecs.", "mimetypes.", "typing.", "binascii.", "struct.",
                            "socket.", "ssl.", "errno.", "traceback.", "logging.", "syslog.", "signal.", "sys.")):
            return OBJ("ext")
        return TOPV

    def call_repo(self, target, call, recv, args, kws, eng, fr):
        f0 = target.funcs[0]
        if f0.name == "getrootpath":
            return V(("root",))
        if self.eff.is_vfs_call(target) or (f0.cls is not None and f0.cls.name in ("VFS_Real",) and target.bound_cls is None):
            m = f0.name
            if m == "getfspath":
                return self.concat([V(("root",)), args[0] if args else TOPV])
            if m == "listdir":
                return V(("name",))
            if m == "open":
                return OBJ("file")
            if m in ("stat",):
                return OBJ("stat")
            if m in ("isdir", "isfile", "exists", "iswritable"):
                return OBJ("bool")
            return OBJ("None")
        # the gate: a selector handed to getHandler is filtered again before any use
        if f0.name == "getHandler" and f0.cls is None:
            return OBJ("handler")
        if f0.name == "log" and f0.module.name in ("pygopherd.logger", "pygopherd.GopherExceptions"):
            return OBJ("None")
        if target.kind == "ctor" and target.cls is not None and self.handler_base is not None \
                and self.prog.is_subclass(target.cls, self.handler_base):
            # direct construction of a handler: do not descend (its methods are
            # analysed as entry points of their own class); the selector handed in is
            # checked in on_call
            return OBJ("handler:" + target.cls.name)
        if target.by_name and len(target.funcs) > 6:
            return TOPV
        return None

    # ------------------------------------------------------------ refinement
    def refine(self, test, truthy: bool, eng, fr, _depth=0) -> Dict[str, object]:
        """Names whose value is known to have passed the selector filter when `test`
        has the given truth value: `<HandlerClass>(N, ...).isrequestsecure()` or
        `P.isrequestsecure()` with P = <HandlerClass>(N, ...)."""
        out = {}
        if not truthy:
            if isinstance(test, ast.UnaryOp) and isinstance(test.op, ast.Not):
                return self.refine(test.operand, True, eng, fr, _depth)
            return out
        if isinstance(test, ast.BoolOp) and isinstance(test.op, ast.And):
            saved = fr.env
            fr.env = dict(saved)
            try:
                for v in test.values:
                    got = self.refine(v, True, eng, fr, _depth)
                    out.update(got)
                    fr.env.update(got)  # a later conjunct is evaluated knowing the earlier ones hold
            finally:
                fr.env = saved
            return out
        if isinstance(test, ast.Call) and isinstance(test.func, ast.Attribute) and test.func.attr in ("isrequestsecure",):
            recv = test.func.value
            ctor = None
            if isinstance(recv, ast.Call):
                ctor = recv
            elif isinstance(recv, ast.Name):
                for n in ast.walk(fr.func.node):
                    if isinstance(n, ast.Assign) and len(n.targets) == 1 and isinstance(n.targets[0], ast.Name) \
                            and n.targets[0].id == recv.id and isinstance(n.value, ast.Call):
                        ctor = n.value
            if ctor is not None and ctor.args and (isinstance(ctor.args[0], ast.Name) or (
                    isinstance(ctor.args[0], ast.Attribute) and isinstance(ctor.args[0].value, ast.Name) and ctor.args[0].value.id != "self")):
                t = eng.resolver.resolve(ctor, fr.func, fr.concrete)
                if t.kind == "ctor" and t.cls is not None and self.handler_base is not None \
                        and self.prog.is_subclass(t.cls, self.handler_base) and t.cls not in self.relaxed:
                    sec = self.prog.resolve_method(t.cls, "isrequestsecure")
                    if sec is not None and sec.cls is self.handler_base:
                        out[dotted(ctor.args[0])] = self._accepted(dotted(ctor.args[0]), fr, out)
        elif isinstance(test, ast.Call) and not _depth and _slash_tested(test) is None:
            # a helper that applies the filter to one of its parameters: self._isrequestable(N), selectorissecure(N)
            t = eng.resolver.resolve(test, fr.func, fr.concrete)
            if t.kind == "repo" and len(t.funcs) == 1 and t.funcs[0] is not None and not t.by_name:
                callee = t.funcs[0]
                params = callee.params[1:] if (callee.cls is not None and callee.params[:1] == ["self"]) else callee.params
                for p_ in self._filtered_params(callee, eng):
                    if p_ in params:
                        i = params.index(p_)
                        a = test.args[i] if i < len(test.args) else next((k.value for k in test.keywords if k.arg == p_), None)
                        if isinstance(a, ast.Name):
                            out[a.id] = self._accepted(a.id, fr, out)
        nm = _slash_tested(test)
        if nm is not None:
            if True:
                cur = out.get(nm, fr.env.get(nm))
                if cur is not None:
                    new = set()
                    for alt in cur:
                        if alt and alt[0][0] == "fac":
                            new.add((("sel",),) + tuple(alt[1:]))
                        elif alt and alt[0][0] in ("content", "raw", "req", "top", "name", "param"):
                            new.add((("c", "/"),) + tuple(alt))
                        else:
                            new.add(alt)
                    out[nm] = frozenset(new)
        return out

    @staticmethod
    def _slash_initial(val) -> bool:
        if not val:
            return False
        for alt in val:
            pieces = [p for p in alt if not (p[0] == "c" and p[1] == "")]
            if not pieces:
                return False
            f = pieces[0]
            if not (f[0] == "sel" or (f[0] == "c" and str(f[1]).startswith("/"))):
                return False
        return True

    def _accepted(self, name, fr, pending):
        """Shape of a name that has passed the selector filter: an accepted selector when it is known to start with '/',
        otherwise accepted text only (the file-system view joins root and selector as text: `<root>` + `x` is a neighbour of the root).
        Request selectors and anything of unknown history keep the old reading (they were normalised by the protocol)."""
        cur = pending.get(name, fr.env.get(name) if fr is not None and fr.env else None)
        if cur is None:
            return V(("sel",))
        contentish = any(p[0] == "content" for alt in cur for p in alt)
        if contentish and not self._slash_initial(cur):
            return V(("fac",))
        return V(("sel",))

    def _filtered_params(self, callee, eng):
        """Parameters of `callee` that have passed the selector filter whenever it returns something true."""
        cache = self.__dict__.setdefault("_filter_params", {})
        if callee in cache:
            return cache[callee]
        cache[callee] = set()
        res = None
        # (a) the function the base filter itself delegates to: `def isrequestsecure(self): return F(self.selector)`
        sec = self.prog.resolve_method(self.handler_base, "isrequestsecure") if self.handler_base is not None else None
        if sec is not None and callee.cls is None:
            for n in ast.walk(sec.node):
                if isinstance(n, ast.Return) and isinstance(n.value, ast.Call):
                    t = eng.resolver.resolve(n.value, sec, self.handler_base)
                    if t.kind == "repo" and callee in t.funcs and n.value.args and norm(n.value.args[0]) in ("self.selector", "self.getselector()") \
                            and callee.params:
                        res = {callee.params[0]}
        # (b) every truthy return is a conjunction containing a filter test of the parameter
        if res is None:
            from .prov import Frame

            rets = [n for n in ast.walk(callee.node) if isinstance(n, ast.Return)]
            per = []
            for r in rets:
                if r.value is None or (isinstance(r.value, ast.Constant) and not r.value.value):
                    continue
                got = self.refine(r.value, True, eng, Frame(callee, callee.cls, {}, (), 0), _depth=1)
                per.append(set(got) & set(callee.params))
            res = set.intersection(*per) if per else set()
        cache[callee] = res
        return res

    # ---------------------------------------------------------------- sinks
    def on_call(self, target, call, recv, args, kws, eng, fr):
        if eng.quiet:
            return
        func = fr.func
        info = None
        if self.eff.is_vfs_call(target):
            m = target.funcs[0].name
            if VFS_METHODS.get(m) and args:
                info = ("vfs", VFS_METHODS[m], args[0], m)
            elif m == "getfspath" and args:
                info = ("vfs", "PATH", args[0], m)
        else:
            effs = direct_effects(call, target)
            effs = [e for e in effs if e.startswith("FS_") or e in ("EXEC",)]
            if effs and not (func.cls is not None and func.cls.name == "VFS_Real"):
                pidx = PATH_ARG_INDEX.get(target.name, 0)
                argval = args[pidx] if len(args) > pidx else (next(iter(kws.values())) if kws else TOPV)
                if "EXEC" in effs and call.args:
                    argval = self._program_value(call, argval, eng, fr)
                info = ("fs", ",".join(effs), argval, target.name)
            if target.kind == "ctor" and target.cls is not None and self.handler_base is not None \
                    and self.prog.is_subclass(target.cls, self.handler_base) and args \
                    and not _only_filter_probe(func, call):
                info = ("ctor", "handler-construction", args[0], target.cls.name)
            if target.kind == "repo" and target.funcs and target.funcs[0] is not None and target.funcs[0].name == "getHandler" \
                    and target.funcs[0].cls is None and args and ".protocols" not in func.module.name:
                # the gate re-applies the filter, but not the leading slash that root + selector relies on
                info = ("gate", "handler-selection", args[0], "getHandler")
        if info is None:
            return
        key = (func.qualname, norm(call))
        rec = self.sites.setdefault(key, {"func": func, "call": call, "mode": info[0], "effect": info[1],
                                          "what": info[3], "values": set(), "chains": set()})
        rec["values"] |= set(info[2])
        if len(rec["chains"]) < 4:
            rec["chains"].add(fr.chain)

    def _program_value(self, call, argval, eng, fr):
        """For subprocess-style calls: the value of the *program* (first list element)."""
        a0 = call.args[0]
        lst = None
        if isinstance(a0, (ast.List, ast.Tuple)) and a0.elts:
            lst = a0
        elif isinstance(a0, ast.Name):
            for n in ast.walk(fr.func.node):
                if isinstance(n, ast.Assign) and any(isinstance(t, ast.Name) and t.id == a0.id for t in n.targets) \
                        and isinstance(n.value, (ast.List, ast.Tuple)) and n.value.elts:
                    lst = n.value
        if lst is not None:
            eng.quiet += 1
            try:
                return eng.expr(lst.elts[0], fr)
            finally:
                eng.quiet -= 1
        return argval


def _only_filter_probe(func, call) -> bool:
    """Is the handler object built by `call` used for nothing but .isrequestsecure()?"""
    from .structure import parents

    pm = parents(func.node)
    par = pm.get(call)
    if isinstance(par, ast.Attribute) and par.attr == "isrequestsecure":
        return True
    if isinstance(par, ast.Assign) and len(par.targets) == 1 and isinstance(par.targets[0], ast.Name):
        name = par.targets[0].id
        for n in ast.walk(func.node):
            if isinstance(n, ast.Name) and n.id == name and isinstance(n.ctx, ast.Load):
                p2 = pm.get(n)
                if not (isinstance(p2, ast.Attribute) and p2.attr == "isrequestsecure"):
                    return False
        return True
    return False


ShapeEngine = Engine


# ----------------------------------------------------------------- shape checks
NAME_REPS = ["a", ".a", "a.", "..a", "a..", "...", "a..b"]


def instantiate(piece, filt, cfgvals: Dict[str, List[str]], first: bool):
    k = piece[0]
    if k == "sel":
        reps = ["/" + w for w in representatives(filt, 2)]
        return [w for w in reps if accepts(filt, w)]
    if k == "fac":
        return representatives(filt, 2)
    if k == "c":
        return [piece[1]]
    if k == "name":
        return NAME_REPS
    if k == "int":
        return ["0", "17"]
    if k == "cfg":
        return cfgvals.get(piece[1])
    if k in ("root", "param"):
        return ["/ROOT"] if k == "root" else None
    return None


def _slash_tested(test):
    """N for `N.startswith("/")`, `N[0:1] == "/"`, `N[:1] == "/"`, `N[0] == "/"` (N a plain name); None otherwise."""
    if isinstance(test, ast.Call) and isinstance(test.func, ast.Attribute) and test.func.attr == "startswith" and isinstance(test.func.value, ast.Name) \
            and len(test.args) == 1 and isinstance(test.args[0], ast.Constant) and isinstance(test.args[0].value, str) and test.args[0].value.startswith("/"):
        return test.func.value.id
    if isinstance(test, ast.Compare) and len(test.ops) == 1 and isinstance(test.ops[0], ast.Eq) and isinstance(test.comparators[0], ast.Constant) \
            and test.comparators[0].value == "/" and isinstance(test.left, ast.Subscript) and isinstance(test.left.value, ast.Name):
        sl = test.left.slice
        if isinstance(sl, ast.Constant) and sl.value == 0:
            return test.left.value.id
        if isinstance(sl, ast.Slice) and (sl.lower is None or (isinstance(sl.lower, ast.Constant) and sl.lower.value == 0)) \
                and isinstance(sl.upper, ast.Constant) and sl.upper.value == 1 and sl.step is None:
            return test.left.value.id
    return None


def shape_problems(alt, mode: str, filt, cfgvals) -> List[str]:
    """Problems of one alternative used as a VFS selector (mode 'vfs') or as a
    real-file-system path (mode 'fs')."""
    pieces = list(alt)
    if not is_stringy(alt):
        kinds = {p[1] for p in alt if p[0] == "obj"}
        if len(alt) == 1 and (kinds <= {"None", "file", "empty"} or next(iter(kinds)).startswith("instance")):
            return []  # a file object or None is not a path
        return [f"path is built from a non-string value ({alt})"]
    if mode == "fs":
        if not pieces or pieces[0][0] != "root":
            return ["path does not start with the document root"]
        pieces = pieces[1:]
        if not pieces:
            return []
    bad = [p for p in pieces if p[0] in ("raw", "req", "content", "top", "param", "root")]
    if bad:
        names = {"raw": "unfiltered request text", "req": "request data", "content": "text read from served content",
                 "top": "a value of unknown origin", "param": "an unconstrained parameter", "root": "a second root"}
        return ["selector contains " + ", ".join(sorted({names[p[0]] for p in bad})) + " that has not passed the security filter"]
    first = pieces[0]
    if not (first[0] == "sel" or (first[0] == "c" and first[1].startswith("/"))):
        return [f"selector does not start with an accepted selector or '/' (starts with {first})"]
    lists = []
    for i, p in enumerate(pieces):
        inst = instantiate(p, filt, cfgvals, i == 0)
        if inst is None:
            return [f"cannot bound the text of piece {p}"]
        lists.append(inst)
    total = 1
    for l in lists:
        total *= max(len(l), 1)
    if total > 400000:
        lists = [l[:12] for l in lists]
    for combo in itertools.product(*lists):
        word = "".join(combo)
        if climbs(word):
            return [f"suffix can form a climbing path: e.g. {'+'.join(repr(c) for c in combo)} = {word!r}"]
    return []
